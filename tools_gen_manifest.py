#!/usr/bin/env python3
"""Regenerates MANIFEST.json from the table below (keeps it valid at all times)."""
import json, sys
CLAIMED = {
 # id: (technique, level text, level_note, design_ref)
 "C15": ("complete enumeration (view x N<=64 x parameter grid x 13 stream classes) + proptest-generated two-level chains, catch_unwind oracle, release and debug-assert builds",
         "Bounded generated search: every single view is enumerated for all N in 1..64 over 13 degenerate/ordinary stream classes in f64 and f32 (exhaustive over that finite grid), two-level chains are sampled by proptest; the oracle is 'no unwind out of update/last' in both cargo profiles. Exploration is the right level because a panic is a point failure in a finite configuration space that can be enumerated for single views and sampled densely for chains.",
         "Trusts catch_unwind + the harness catalogue; 'moderate magnitude' read as 0 or 1e-3..1e6; listed findings (KNOWN_FINDINGS.txt) are excluded from chains by construction and reported as KNOWN-FINDING.",
         "DESIGN.md section 4 C15"),
}
TODO_REASON = "check under construction in this session: not claimed until its clauses are committed"
ALL = ["C%02d" % i for i in range(1, 19)]
checks = []
for pid in ALL:
    if pid in CLAIMED:
        tech, text, note, ref = CLAIMED[pid]
        checks.append({
            "property_id": pid,
            "quick_cmd": f"./check.sh {pid} quick",
            "thorough_cmd": f"./check.sh {pid} thorough",
            "evidence_file": f"/verif/evidence/{pid}.json",
            "replay_cmd_template": "./check.sh replay {path}",
            "engine": "vcheck",
            "level_claimed": {"category": "exploration", "text": text, "design_ref": ref},
            "level_note": note,
            "technique": tech,
        })
m = {
 "version": 1,
 "setup_cmd": "./check.sh setup",
 "hooks": {
   "guard": "sliding_features_verif",
   "enable": "none needed: every property is observable through the public API (View::update/last, Clone, WelfordOnline/WelfordRolling accessors), unwinding and a counting allocator inside the harness; no source hooks were added to /repo",
   "baseline_off_cmd": "cd /repo && cargo test --workspace --no-fail-fast --offline",
   "source_commits": [],
   "add_only": True,
 },
 "engines": [
   {"name": "vcheck", "path": "/verif/harness", "serves_properties": sorted(CLAIMED.keys()),
    "kind_free_text": "Rust binary: proptest 1.11 used as a library (seeded TestRunner per clause, shrinking, replay files), complete enumeration of finite configuration spaces, exact-rational scalar Q implementing num::Float so the crate's own generic code runs in exact arithmetic, independent batch reference models"},
 ],
 "checks": checks,
 "notes": "All checks rebuild the harness against /repo's working tree (path dependency) before running. Exit 0 held / 1 VIOLATION / 2 harness error or inconclusive. KNOWN_FINDINGS.txt lists repaired (fixed:) and recorded (finding:) defects.",
 "not_applicable": [{"property_id": p, "reason": TODO_REASON} for p in ALL if p not in CLAIMED],
}
json.dump(m, open("/verif/MANIFEST.json", "w"), indent=1)
print("claimed:", sorted(CLAIMED))
