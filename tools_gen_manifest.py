#!/usr/bin/env python3
"""Regenerates MANIFEST.json from the table below (keeps it valid at all times)."""
import json, sys
READY = ["C01", "C02", "C03", "C04", "C05", "C06", "C07", "C08", "C09", "C10", "C11", "C12", "C13", "C14", "C15", "C16", "C17", "C18"]
EXPL = "Bounded, seeded, generated search with an explicit oracle; finite configuration sub-spaces are enumerated completely (flagged exhaustive in the evidence). A pass means the oracle held on every generated case, not a proof over all inputs."
TEXTS = {
 "C01": ("differential decomposition oracle over all wrapper x inner pairs (proptest), probe leaves for delivery; bit-exact", "every ordered (wrapper, inner) pair of the catalogue is enumerated and driven with generated streams; chain output is compared bit-for-bit with stand-alone inner + stand-alone wrapper fed only when the inner has an output; Probe leaves check exactly-once in-order delivery."),
 "C02": ("proptest streams vs independent batch reference in exact rational arithmetic (crate code instantiated at an exact scalar), plus f64 leg", "each windowed statistic is run at the exact scalar Q and compared for equality with a batch definition over exactly the last N raw values after every update; f64 leg with rounding-noise tolerance."),
 "C03": ("metamorphic: two histories with different prefixes and a common suffix, exact equality in rational arithmetic after K suffix values", "pairs of histories with arbitrary (up to 2^40 x larger) distinct prefixes and a common suffix; outputs must coincide once K(view,N) suffix values are consumed."),
 "C04": ("proptest + exact rational arithmetic: bounds, constant reproduction, monotonicity, affine equivariance, EMA recurrence and ALMA kernel reference", "metamorphic relations and definitional references for Sma, Ema, Alma decided exactly in Q, with an f64 leg."),
 "C05": ("proptest streams vs batch gains/losses reference in exact rational arithmetic; negation relation", "Rsi and MyRSI compared at every step with G/L over the N most recent values; monotone runs, spikes leaving the window and flat-after-volatile are constructed by the generator."),
 "C06": ("proptest streams vs Pearson / Kendall / CoG batch references in exact arithmetic; negation and rank-invariance relations", "CTI, NET and CoG compared on every full window with their statistical definitions; monotone, linear, tied, constant and zero-sum windows are constructed."),
 "C07": ("adversarial generated histories, range oracle in f64, f32 and exact arithmetic; failures classified numerical vs algorithmic by re-running in Q", "bounded indicators are driven with flat-after-volatile, step, linear and wide-dynamic-range streams; every output is checked against its documented range to a few ulps."),
 "C08": ("generated streams over every view and chain: monotone readiness, finiteness, warm-up table, Gate/Mute leaves", "readiness never reverts, outputs finite, first-output index equals the documented warm-up (also shifted by a gating leaf), no answer change when nothing is delivered."),
 "C09": ("enumerated window lengths x impulse/step/worst-case inputs (BIBO bound attained), two-stream fading-memory relation", "every N from the minimum to 64 and a log grid to 1024 is enumerated; decay of the impulse response and of the difference between merged streams is measured at horizon T and 2T."),
 "C10": ("three-run superposition relation decided exactly in rational arithmetic; DC gain clauses over all N", "x, y and a*x+b*y through three instances; out_z = a*out_x + b*out_y exactly in Q at every step, including streams that drive the state through 0."),
 "C11": ("independent batch re-evaluation of the cited difference equations, generic over the scalar, compared in exact arithmetic and f64", "nine Ehlers-style views are compared at every step with batch references written from the papers' equations under the crate's stated conventions; branch signatures covered are reported."),
 "C12": ("metamorphic pairs (scale, offset, negation): exact in rational arithmetic for arbitrary a, b; bit-exact in f64 for a = 2^k", "x vs a*x+b (or -x) through two instances for every view in the three lists of the statement."),
 "C13": ("proptest positive streams vs batch definitions (exact integer accumulators), long streams in f64", "WelfordRolling, Drawdown and LnReturn compared with their batch definitions at every step; peaks after deeper troughs, repeated peaks and long streams are constructed."),
 "C14": ("twin children beside the combinator, bit-exact pointwise oracle; history-independence relation", "Add/Subtract/Multiply/Divide/Tanh/GTE/LTE/Echo/Constant compared bit-for-bit with the operation applied to stand-alone twins of their children after every update."),
 "C15": ("complete enumeration (view x N<=64 x parameter grid x 13 stream classes) + proptest-generated two-level chains, catch_unwind oracle, release and debug-assert builds", "every single view is enumerated for all N in 1..64 over 13 degenerate/ordinary stream classes in f64 and f32, two-level chains are sampled; the oracle is 'no unwind out of update/last' in both cargo profiles."),
 "C16": ("differential: same generic code at f64/f32 vs exact rational scalar on envelope-respecting generated streams; flat-after-volatile construction", "floating-point outputs are compared with the exact-arithmetic run of the same view along long streams and on flat stretches following volatile ones."),
 "C17": ("twins, extra last() calls and clones at generated positions with divergent continuations; bit-exact", "interleaved twins, repeated last() and clone/diverge histories over every view and pair."),
 "C18": ("counting global allocator: live heap attributed to the view at stream lengths L, 4L, 16L over noise, ramps and plateaus", "live bytes owned by a view/chain must not grow between L and 16L and stay below a bound in the window lengths alone."),
}
CLAIMED = {}
for pid in READY:
    tech, what = TEXTS[pid]
    CLAIMED[pid] = (tech, EXPL + " Here: " + what,
        "Trusts the harness catalogue (builds the crate's real view types), the exact scalar Q (models the num::Float operations the crate calls) and proptest's generators; listed findings in KNOWN_FINDINGS.txt are reported as KNOWN-FINDING, matched by failure signature.",
        "DESIGN.md section 4 " + pid)
TODO_REASON = "check under construction in this session: not claimed until its clauses are committed"
ALL = ["C%02d" % i for i in range(1, 19)]
checks = []
for pid in ALL:
    if pid in CLAIMED:
        tech, text, note, ref = CLAIMED[pid]
        if pid in ("C01", "C17"):
            tech += "; thorough tier adds a coverage-guided libFuzzer campaign (target fz_chain) with the same oracle inside the target"
        elif pid in ("C08", "C15"):
            tech += "; thorough tier adds a coverage-guided libFuzzer campaign (target fz_nopanic) with the same oracle inside the target"
        elif pid in ("C02", "C03", "C04", "C05", "C06", "C07", "C10", "C11", "C12", "C13", "C14"):
            tech += "; thorough tier adds eight coverage-guided libFuzzer campaigns (target fz_single) whose inputs decode to cases of these clauses"
        checks.append({
            "property_id": pid,
            "quick_cmd": f"./check.sh {pid} quick",
            "thorough_cmd": f"./check.sh {pid} thorough",
            "evidence_file": f"/verif/evidence/{pid}.json",
            "replay_cmd_template": "./check.sh replay {path}",
            "engine": "vcheck",
            "level_claimed": {"category": "exploration", "text": text, "design_ref": ref},
            "level_note": note,
            "technique": tech,
        })
m = {
 "version": 1,
 "setup_cmd": "./check.sh setup",
 "hooks": {
   "guard": "sliding_features_verif",
   "enable": "none needed: every property is observable through the public API (View::update/last, Clone, WelfordOnline/WelfordRolling accessors), unwinding and a counting allocator inside the harness; no source hooks were added to /repo",
   "baseline_off_cmd": "cd /repo && cargo test --workspace --no-fail-fast --offline",
   "source_commits": [],
   "add_only": True,
 },
 "engines": [
   {"name": "vcheck", "path": "/verif/harness", "serves_properties": sorted(CLAIMED.keys()),
    "kind_free_text": "Rust binary: proptest 1.11 used as a library (seeded TestRunner per clause, shrinking, replay files), complete enumeration of finite configuration spaces, exact-rational scalar Q implementing num::Float so the crate's own generic code runs in exact arithmetic, independent batch reference models"},
   {"name": "libFuzzer (cargo-fuzz)", "path": "/verif/harness/fuzz", "serves_properties": ["C01", "C02", "C03", "C04", "C05", "C06", "C07", "C08", "C10", "C11", "C12", "C13", "C14", "C15", "C17"],
    "kind_free_text": "coverage-guided in-process fuzz targets fz_chain (C01, C17), fz_nopanic (C08, C15) and fz_single (C02-C07, C10-C14: single views against the definitional / metamorphic oracle of the clause the input names): bytes are decoded (arbitrary::Unstructured) into the same Case type the proptest strategies produce and the same oracle functions run inside the target; fixed-work campaigns in the thorough tier (check.sh), artifacts re-run through `vcheck fuzz-replay`"},
 ],
 "checks": checks,
 "notes": "All checks rebuild the harness against /repo's working tree (path dependency) before running. Exit 0 held / 1 VIOLATION / 2 harness error or inconclusive. KNOWN_FINDINGS.txt lists repaired (fixed:) and recorded (finding:) defects.",
 "not_applicable": [{"property_id": p, "reason": TODO_REASON} for p in ALL if p not in CLAIMED],
}
json.dump(m, open("/verif/MANIFEST.json", "w"), indent=1)
print("claimed:", sorted(CLAIMED))
