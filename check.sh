#!/bin/sh
# ./check.sh setup                      build the harness (both cargo profiles) offline
# ./check.sh <Cxx> [quick|thorough]     rebuild against /repo's working tree, run the property's check
# ./check.sh replay <file>              re-execute one saved counterexample
# exit: 0 held / 1 VIOLATION printed / 2 harness error or inconclusive
VERIF="$(cd "$(dirname "$0")" && pwd)"
export CARGO_NET_OFFLINE=true
export VERIF_DIR="$VERIF"
H="$VERIF/harness"
build() { # $1 = profile flag(s)
    out=$(cd "$H" && cargo build -q $1 2>&1)
    st=$?
    if [ $st -ne 0 ]; then
        echo "$out" | tail -n 60 >&2
        echo "HARNESS-ERROR: cargo build $1 failed (status $st)" >&2
        exit 2
    fi
}
# thorough tier of C01 / C17 (fz_chain), C08 / C15 (fz_nopanic) and C02-C07, C10-C14 (fz_single): a fixed-work libFuzzer campaign with the property's oracle
# inside the target. Prints a VIOLATION line (through `vcheck fuzz-replay`, which also writes the JSON replay) and returns 1 if
# the campaign found an unlisted failure; timeouts / OOM / build problems are inconclusive (2), never a violation.
fuzz_campaign() { # $1 = property
    case "$1" in C01|C17) tgt=fz_chain;; C08|C15) tgt=fz_nopanic;; C02|C03|C04|C05|C06|C07|C10|C11|C12|C13|C14) tgt=fz_single;; *) return 0;; esac
    seed="${VERIF_SEED:-20261002}"; case "$1" in C17|C08) seed=$((seed + 1));; esac
    [ "$seed" -eq 0 ] && seed=1
    corp="$H/fuzz/corpus_tmp.$$"; art="$H/fuzz/artifacts_tmp.$$/"; wd="$H/fuzz/run_tmp.$$"
    rm -rf "$corp" "$corp".* "$art" "$wd"; mkdir -p "$art" "$wd"
    if [ "$tgt" = fz_single ]; then
        # exact-arithmetic oracles cost 5-150 ms per case under coverage instrumentation: eight independent campaigns (own
        # corpus, seed + i) run side by side, each a fixed number of runs chosen per property for roughly 5-8 minutes in all.
        # /repo has no unsafe code and neither has the harness: built without a sanitizer, in a target directory of its own.
        case "$1" in C02) per=4000;; C03) per=10000;; C04) per=2500;; C05) per=20000;; C06) per=6000;; C07) per=40000;; C10) per=2500;; C11) per=1500;; C12) per=8000;; C13) per=2500;; *) per=2500;; esac
        per="${VERIF_FUZZ_RUNS_SINGLE:-$per}"
        out=$(cd "$H" && cargo +nightly fuzz build -s none --target-dir "$H/fuzz/target_nosan" "$tgt" 2>&1) || { echo "$out" | tail -n 30 >&2; echo "HARNESS-ERROR: cargo fuzz build failed" >&2; return 2; }
        bin="$H/fuzz/target_nosan/x86_64-unknown-linux-gnu/release/$tgt"
        [ -x "$bin" ] || { echo "HARNESS-ERROR: $bin missing after the build" >&2; return 2; }
        for i in 0 1 2 3 4 5 6 7; do
            mkdir -p "$corp.$i"; cp "$H/fuzz/seeds/$tgt/"* "$corp.$i/" 2>/dev/null
            ( FZ_PROP="$1" VERIF_DIR="$VERIF" "$bin" "$corp.$i" -runs="$per" -seed=$((seed + i)) -max_len=2048 -len_control=0 -timeout=120 -rss_limit_mb=4096 -artifact_prefix="$art" -print_final_stats=1 > "$wd/log.$i" 2>&1; echo $? > "$wd/st.$i" ) &
        done
        wait
        log=$(cat "$wd"/log.* 2>/dev/null)
        st=0; for i in 0 1 2 3 4 5 6 7; do s=$(cat "$wd/st.$i" 2>/dev/null || echo 99); [ "$s" -ne 0 ] && st=$s; done
        execs=$(echo "$log" | grep -a -E "stat::number_of_executed_units" | awk '{s+=$2} END {print s}')
        feats=$(echo "$log" | grep -a -E "DONE" | sed 's/.*cov: \([0-9]*\) ft: \([0-9]*\).*/\1 \2/' | sort -n | tail -n 1 | awk '{print "cov=" $1 " ft=" $2}')
        export VERIF_FUZZ_NOTE="libFuzzer $tgt FZ_PROP=$1: 8 campaigns, runs=${execs:-?} in all, seeds $seed..$((seed + 7)), best $feats, exit=$st"
    else
        runs="${VERIF_FUZZ_RUNS:-600000}"
        out=$(cd "$H" && cargo +nightly fuzz build "$tgt" 2>&1) || { echo "$out" | tail -n 30 >&2; echo "HARNESS-ERROR: cargo fuzz build failed" >&2; return 2; }
        mkdir -p "$corp"; cp "$H/fuzz/seeds/$tgt/"* "$corp/" 2>/dev/null
        log=$(cd "$H" && FZ_PROP="$1" cargo +nightly fuzz run "$tgt" "$corp" -- -runs="$runs" -seed="$seed" -max_len=2048 -len_control=0 -timeout=60 -rss_limit_mb=4096 -artifact_prefix="$art" -print_final_stats=1 2>&1)
        st=$?
        execs=$(echo "$log" | grep -a -E "stat::number_of_executed_units" | awk '{print $2}')
        feats=$(echo "$log" | grep -a -E "DONE|cov:" | tail -n 1 | sed 's/.*cov: \([0-9]*\) ft: \([0-9]*\).*/cov=\1 ft=\2/')
        export VERIF_FUZZ_NOTE="libFuzzer $tgt FZ_PROP=$1: runs=${execs:-?} seed=$seed $feats exit=$st"
    fi
    rc=0
    if echo "$log" | grep -a -q "FUZZ-VIOLATION"; then
        echo "$log" | grep -a -A2 "FUZZ-VIOLATION" | head -n 6 >&2
        a=$(ls "$art"crash-* 2>/dev/null | head -n 1)
        if [ -n "$a" ]; then
            keep="$VERIF/replays/fuzz-$1-$(basename "$a")"; mkdir -p "$VERIF/replays"; cp "$a" "$keep"
            rout=$("$H/target/release/vcheck" fuzz-replay "$1" "$keep" 2>&1); rc=$?; echo "$rout"
            if [ $rc -eq 0 ]; then
                # the fuzz targets are built with debug assertions and overflow checks: a failure that the release build does not
                # show is looked for once more with the harness binary built that way; if neither reproduces it, the campaign is
                # inconclusive (the artifact is kept), never silently green
                json=$(echo "$rout" | grep -a "fuzz-replay: case written to " | head -n 1 | sed 's/.*case written to //')
                if [ -n "$json" ] && [ -x "$H/target/relassert/vcheck" ]; then
                    VCHECK_ANY_PROFILE=1 "$H/target/relassert/vcheck" replay "$json" --verif-dir "$VERIF"; rc=$?
                fi
                if [ $rc -eq 0 ]; then
                    echo "INCONCLUSIVE: the fuzz target reported a failure ($keep) that neither replay reproduces" >&2; rc=2
                fi
            fi
        else
            echo "HARNESS-ERROR: fuzz violation without artifact" >&2; rc=2
        fi
    elif [ $st -ne 0 ]; then
        echo "$log" | tail -n 15 >&2
        echo "INCONCLUSIVE: libFuzzer campaign ended with status $st (timeout / OOM / crash outside the oracle)" >&2; rc=2
    fi
    rm -rf "$corp" "$corp".* "$art" "$wd"
    return $rc
}
needs_relassert() { case "$1" in C15) return 0;; *) return 1;; esac; }
case "$1" in
    setup)
        build "--release"
        build "--profile relassert"
        echo "setup ok"
        ;;
    replay)
        build "--release"
        build "--profile relassert"
        export VCHECK_RELASSERT_BIN="$H/target/relassert/vcheck"
        exec "$H/target/release/vcheck" replay "$2"
        ;;
    C[0-9][0-9])
        tier="${2:-${VERIF_TIER:-quick}}"
        build "--release"
        if needs_relassert "$1"; then
            build "--profile relassert"
            export VCHECK_RELASSERT_BIN="$H/target/relassert/vcheck"
        fi
        frc=0
        if [ "$tier" = thorough ]; then
            export VCHECK_RELASSERT_BIN="$H/target/relassert/vcheck"
            case "$1" in
                C01|C08|C15|C17) build "--profile relassert"; fuzz_campaign "$1"; frc=$?;;
                C02|C03|C04|C05|C06|C07|C10|C11|C12|C13|C14) fuzz_campaign "$1"; frc=$?;;
            esac
        fi
        "$H/target/release/vcheck" "$1" --tier "$tier"; vrc=$?
        if [ $vrc -eq 1 ] || [ $frc -eq 1 ]; then exit 1; fi
        if [ $vrc -ne 0 ]; then exit $vrc; fi
        exit $frc
        ;;
    *)
        echo "usage: $0 setup | <Cxx> [quick|thorough] | replay <file>" >&2
        exit 2
        ;;
esac
