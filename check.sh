#!/bin/sh
# ./check.sh setup                      build the harness (both cargo profiles) offline
# ./check.sh <Cxx> [quick|thorough]     rebuild against /repo's working tree, run the property's check
# ./check.sh replay <file>              re-execute one saved counterexample
# exit: 0 held / 1 VIOLATION printed / 2 harness error or inconclusive
VERIF="$(cd "$(dirname "$0")" && pwd)"
export CARGO_NET_OFFLINE=true
export VERIF_DIR="$VERIF"
H="$VERIF/harness"
build() { # $1 = profile flag(s)
    out=$(cd "$H" && cargo build -q $1 2>&1)
    st=$?
    if [ $st -ne 0 ]; then
        echo "$out" | tail -n 60 >&2
        echo "HARNESS-ERROR: cargo build $1 failed (status $st)" >&2
        exit 2
    fi
}
needs_relassert() { case "$1" in C15) return 0;; *) return 1;; esac; }
case "$1" in
    setup)
        build "--release"
        build "--profile relassert"
        echo "setup ok"
        ;;
    replay)
        build "--release"
        build "--profile relassert"
        export VCHECK_RELASSERT_BIN="$H/target/relassert/vcheck"
        exec "$H/target/release/vcheck" replay "$2"
        ;;
    C[0-9][0-9])
        tier="${2:-${VERIF_TIER:-quick}}"
        build "--release"
        if needs_relassert "$1"; then
            build "--profile relassert"
            export VCHECK_RELASSERT_BIN="$H/target/relassert/vcheck"
        fi
        exec "$H/target/release/vcheck" "$1" --tier "$tier"
        ;;
    *)
        echo "usage: $0 setup | <Cxx> [quick|thorough] | replay <file>" >&2
        exit 2
        ;;
esac
