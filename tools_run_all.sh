#!/bin/bash
# runs every claimed quick (or $1=thorough) check on the current /repo tree; prints exit codes and KNOWN/VIOLATION lines
tier="${1:-quick}"
cd /verif
for c in $(python3 -c "import json;print(' '.join(x['property_id'] for x in json.load(open('MANIFEST.json'))['checks']))"); do
  s=$(date +%s); out=$(./check.sh $c $tier 2>&1); st=$?; e=$(date +%s)
  echo "== $c exit=$st $((e-s))s $(echo "$out" | grep -c KNOWN-FINDING) known"; echo "$out" | grep -E "VIOLATION|HARNESS|WARNING|INCONCLUSIVE" | head -5
done
