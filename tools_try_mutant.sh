#!/bin/bash
export VERIF_EVIDENCE_DIR=/root/.cache/sfverif-trial-evidence; mkdir -p $VERIF_EVIDENCE_DIR  # evidence of trials on changed trees never lands in /verif/evidence
# tools_try_mutant.sh <patch.diff> <Cxx> [Cyy ...]   apply a seeded change to /repo, run the quick checks, undo it
P="$1"; shift
git -C /repo apply "$P" || { echo "patch does not apply"; exit 2; }
for c in "$@"; do
  out=$(cd /verif && ./check.sh $c quick 2>&1); st=$?
  echo "== $c exit=$st"; echo "$out" | grep -E "VIOLATION|clause=|HARNESS|^\[" | head -8
done
git -C /repo checkout -- .
(cd /verif/harness && CARGO_NET_OFFLINE=true cargo build -q --release 2>/dev/null; CARGO_NET_OFFLINE=true cargo build -q --profile relassert 2>/dev/null)  # never leave a binary built from the changed tree behind
