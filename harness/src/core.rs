//! Core types: exact stream values, generated cases, verdicts and clause definitions.
use crate::catalog::Spec;
use num::bigint::BigInt;
use num::rational::BigRational;
use proptest::strategy::BoxedStrategy;
use serde::{Deserialize, Serialize};

#[derive(Copy, Clone, Debug, PartialEq, Eq)]
pub enum Tier {
    Quick,
    Thorough,
}
impl Tier {
    pub fn name(self) -> &'static str {
        match self {
            Tier::Quick => "quick",
            Tier::Thorough => "thorough",
        }
    }
    pub fn pick<T>(self, q: T, t: T) -> T {
        match self {
            Tier::Quick => q,
            Tier::Thorough => t,
        }
    }
}

/// Exact rational n/d (d > 0). All generated stream values are of this form so that a case is plain
/// integers in JSON and means the same number in Q, f64 (nearest) and f32 (nearest).
#[derive(Copy, Clone, Debug, PartialEq, Eq, Hash, Serialize, Deserialize, Default)]
pub struct Rat(pub i64, pub i64);
impl Rat {
    pub fn int(n: i64) -> Rat {
        Rat(n, 1)
    }
    /// Rat(0, -d) is the floating-point negative zero: the number 0 in exact arithmetic, -0.0 in f64 / f32
    pub fn neg_zero() -> Rat {
        Rat(0, -1)
    }
    pub fn big(self) -> BigRational {
        if self.0 == 0 && self.1 < 0 {
            return BigRational::from_integer(BigInt::from(0));
        }
        assert!(self.1 > 0, "Rat denominator must be positive");
        BigRational::new(BigInt::from(self.0), BigInt::from(self.1))
    }
    /// Nearest f64 (correctly rounded: both operands are exactly representable).
    pub fn f64(self) -> f64 {
        if self.0 == 0 && self.1 < 0 {
            return -0.0;
        }
        assert!(self.1 > 0 && self.0.abs() < (1i64 << 53) && self.1 < (1i64 << 53), "Rat out of exact f64 range: {:?}", self);
        self.0 as f64 / self.1 as f64
    }
    pub fn f32(self) -> f32 {
        // nearest f32 to the rational: n/d in f64 is within half an ulp(f64); a double rounding can only
        // matter for values within 2^-29 relative of an f32 tie, which the grids used for f32 never produce
        self.f64() as f32
    }
    pub fn is_zero(self) -> bool {
        self.0 == 0
    }
    pub fn neg(self) -> Rat {
        Rat(-self.0, self.1)
    }
}

/// A generated case. One universal shape keeps replay files and shrinking uniform; each clause documents
/// which fields it uses.
#[derive(Clone, Debug, Serialize, Deserialize, Default)]
pub struct Case {
    /// the view (tree) under test
    pub spec: Option<Spec>,
    /// optional second view (pairs, twins, children)
    #[serde(default, skip_serializing_if = "Option::is_none")]
    pub spec2: Option<Spec>,
    #[serde(default, skip_serializing_if = "Vec::is_empty")]
    pub xs: Vec<Rat>,
    #[serde(default, skip_serializing_if = "Vec::is_empty")]
    pub ys: Vec<Rat>,
    #[serde(default, skip_serializing_if = "Vec::is_empty")]
    pub zs: Vec<Rat>,
    #[serde(default)]
    pub a: Rat,
    #[serde(default)]
    pub b: Rat,
    /// clause-specific integers (positions, exponents, counts, long-stream seeds)
    #[serde(default, skip_serializing_if = "Vec::is_empty")]
    pub ints: Vec<i64>,
    /// binary exponent of the input unit: clauses that say so multiply every stream value by 2^e2 (units far outside what
    /// an i64 ratio can express, down to the subnormal range)
    #[serde(default, skip_serializing_if = "is_zero_i32")]
    pub e2: i32,
}
fn is_zero_i32(x: &i32) -> bool {
    *x == 0
}
impl Case {
    pub fn spec(&self) -> &Spec {
        self.spec.as_ref().expect("case has a spec")
    }
    pub fn of(spec: Spec, xs: Vec<Rat>) -> Case {
        Case { spec: Some(spec), xs, a: Rat(1, 1), b: Rat(0, 1), ..Default::default() }
    }
}

#[derive(Clone, Debug)]
pub enum Verdict {
    /// The oracle held. `nontrivial`: the case satisfied the clause's stated non-triviality rule.
    Pass { nontrivial: bool, labels: Vec<String> },
    /// The case is outside the property's domain (counted, never a failure).
    Discard(String),
    /// The oracle failed. `sig` identifies *what kind* of failure (matched against KNOWN_FINDINGS.txt).
    Fail { sig: String, msg: String },
}
impl Verdict {
    pub fn pass(nontrivial: bool, labels: Vec<String>) -> Verdict {
        Verdict::Pass { nontrivial, labels }
    }
    pub fn fail(sig: impl Into<String>, msg: impl Into<String>) -> Verdict {
        Verdict::Fail { sig: sig.into(), msg: msg.into() }
    }
}

pub type CheckFn = Box<dyn Fn(&Case) -> Verdict + Send + Sync>;
pub type StrategyFn = Box<dyn Fn(Tier) -> BoxedStrategy<Case> + Send + Sync>;
pub type EnumFn = Box<dyn Fn(Tier) -> Vec<Case> + Send + Sync>;

pub enum Source {
    /// cases drawn by proptest (shrunk on failure)
    Generated { strategy: StrategyFn, quick: u32, thorough: u32 },
    /// a finite space enumerated completely
    Enumerated { cases: EnumFn },
}

pub struct Clause {
    /// e.g. "C02/Sma/definition/Q"
    pub id: String,
    pub property: &'static str,
    /// how cases are generated and what makes one non-trivial
    pub rule: String,
    pub source: Source,
    pub check: CheckFn,
    /// Some("relassert") = must be executed by the binary built with debug assertions + overflow checks
    pub profile: Option<&'static str>,
    /// cases per shard (parallelism granularity)
    pub shard: u32,
}
impl Clause {
    pub fn generated(property: &'static str, id: impl Into<String>, rule: impl Into<String>, quick: u32, thorough: u32, strategy: impl Fn(Tier) -> BoxedStrategy<Case> + Send + Sync + 'static, check: impl Fn(&Case) -> Verdict + Send + Sync + 'static) -> Clause {
        Clause { id: id.into(), property, rule: rule.into(), source: Source::Generated { strategy: Box::new(strategy), quick, thorough }, check: Box::new(check), profile: None, shard: 250 }
    }
    pub fn enumerated(property: &'static str, id: impl Into<String>, rule: impl Into<String>, cases: impl Fn(Tier) -> Vec<Case> + Send + Sync + 'static, check: impl Fn(&Case) -> Verdict + Send + Sync + 'static) -> Clause {
        Clause { id: id.into(), property, rule: rule.into(), source: Source::Enumerated { cases: Box::new(cases) }, check: Box::new(check), profile: None, shard: 2000 }
    }
    pub fn with_profile(mut self, p: &'static str) -> Clause {
        self.profile = Some(p);
        self
    }
    pub fn with_shard(mut self, s: u32) -> Clause {
        self.shard = s.max(1);
        self
    }
}
