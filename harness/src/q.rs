//! Exact scalar `Q`: implements `num::Float` over arbitrary-precision rationals so that the crate's own
//! generic view code can be run in exact arithmetic. `Copy` is provided by storing the payload in a
//! thread-local arena (reset per generated case; a stale handle panics = harness error).
//! + - * / comparisons, powi, abs, clamp and conversions are exact; sqrt is exact on perfect squares and
//! otherwise correct to 2^-192 relative; exp/ln/log2/sin/cos/tanh are evaluated in >=256-bit fixed point.
//! Results whose denominator exceeds 512 bits are rounded to 320 significant bits (floating rounding, counted).
#![allow(clippy::all)]
use num::bigint::{BigInt, Sign};
use num::rational::BigRational;
use num::traits::{Num, NumCast, One, Signed, ToPrimitive, Zero};
use std::cell::RefCell;
use std::cmp::Ordering;
use std::num::FpCategory;
use std::ops::{Add, Div, Mul, Neg, Rem, Sub};

const P: u64 = 192; // fractional bits for transcendental approximations
const GRID: u64 = 256; // rounding grid 2^-GRID when denominators exceed 2*GRID bits

#[derive(Copy, Clone, Debug)]
pub enum Q {
    /// small rational stored inline: num / den with den > 0, gcd(num, den) = 1, |num| <= i64::MAX
    Sm(i64, i64),
    /// big rational in the thread-local arena
    Fin { idx: u32, generation: u32 },
    PInf,
    NInf,
    NaN,
}

struct Arena {
    vals: Vec<BigRational>,
    generation: u32,
    rounded: u64,
}
thread_local! {
    static ARENA: RefCell<Arena> = RefCell::new(Arena { vals: Vec::new(), generation: 1, rounded: 0 });
}
pub fn arena_reset() {
    ARENA.with(|a| {
        let mut a = a.borrow_mut();
        a.vals.clear();
        a.generation += 1;
        a.rounded = 0;
    })
}
pub fn arena_len() -> usize {
    ARENA.with(|a| a.borrow().vals.len())
}
pub fn arena_rounded() -> u64 {
    ARENA.with(|a| a.borrow().rounded)
}

fn normalise(r: BigRational, rounded: &mut u64) -> BigRational {
    if r.denom().bits() > 2 * GRID {
        *rounded += 1;
        // floating rounding to MANT significant bits: q = round(n * 2^s / d) with s chosen so that q has ~MANT bits,
        // value = q / 2^s. (Relative, so tiny numbers such as exp(-300) keep their precision.)
        const MANT: i64 = 320;
        let (n, d) = r.into_raw();
        if n.is_zero() {
            return BigRational::zero();
        }
        let s: i64 = MANT - (n.bits() as i64 - d.bits() as i64);
        let (num, den): (BigInt, BigInt) = if s >= 0 { ((n << (s as u64 + 1)) + &d, d << 1u32) } else { ((n << 1u32) + (&d << ((-s) as u64)), d << ((-s) as u64 + 1)) };
        let q = num::Integer::div_floor(&num, &den);
        if q.is_zero() {
            return BigRational::zero();
        }
        if s >= 0 {
            let tz = q.trailing_zeros().unwrap_or(0).min(s as u64);
            BigRational::new_raw(q >> tz, BigInt::one() << (s as u64 - tz))
        } else {
            BigRational::from_integer(q << ((-s) as u64))
        }
    } else {
        r
    }
}

impl Q {
    pub fn from_ratio(r: BigRational) -> Q {
        // values that fit are kept inline (no arena growth: an O(N^2)-per-update view would otherwise allocate gigabytes per case)
        if let (Some(n), Some(d)) = (r.numer().to_i64(), r.denom().to_i64()) {
            if n != i64::MIN && d > 0 {
                return Q::Sm(n, d);
            }
        }
        ARENA.with(|a| {
            let mut a = a.borrow_mut();
            let mut rd = a.rounded;
            let r = normalise(r, &mut rd);
            a.rounded = rd;
            if a.vals.len() > 24_000_000 {
                // a single case should never need this many big values; stop as "inconclusive" instead of exhausting the machine
                panic!("{}: exact-scalar arena exceeds 24M big values in one case", Q_UNIMPL_MARKER);
            }
            a.vals.push(r);
            Q::Fin { idx: (a.vals.len() - 1) as u32, generation: a.generation }
        })
    }
    /// inline rational from an i128 fraction (den != 0); reduces, spills to the arena if it does not fit
    fn from_i128(n: i128, d: i128) -> Q {
        debug_assert!(d != 0);
        let (mut n, mut d) = if d < 0 { (-n, -d) } else { (n, d) };
        if n == 0 {
            return Q::Sm(0, 1);
        }
        let g = gcd_i128(n.unsigned_abs(), d.unsigned_abs()) as i128;
        n /= g;
        d /= g;
        if n > i64::MIN as i128 && n <= i64::MAX as i128 && d <= i64::MAX as i128 {
            Q::Sm(n as i64, d as i64)
        } else {
            Q::from_ratio(BigRational::new_raw(BigInt::from(n), BigInt::from(d)))
        }
    }
    #[inline]
    pub fn is_fin(self) -> bool {
        matches!(self, Q::Sm(..) | Q::Fin { .. })
    }
    pub fn get(self) -> Option<BigRational> {
        match self {
            Q::Sm(n, d) => Some(BigRational::new_raw(BigInt::from(n), BigInt::from(d))),
            Q::Fin { idx, generation } => ARENA.with(|a| {
                let a = a.borrow();
                assert_eq!(a.generation, generation, "stale Q handle");
                Some(a.vals[idx as usize].clone())
            }),
            _ => None,
        }
    }
    pub fn from_f64_exact(f: f64) -> Q {
        if f.is_nan() {
            return Q::NaN;
        }
        if f.is_infinite() {
            return if f > 0.0 { Q::PInf } else { Q::NInf };
        }
        Q::from_ratio(BigRational::from_float(f).unwrap())
    }
    pub fn to_f64_lossy(self) -> f64 {
        match self {
            Q::Sm(..) | Q::Fin { .. } => {
                let r = self.get().unwrap();
                // robust conversion: scale
                ratio_to_f64(&r)
            }
            Q::PInf => f64::INFINITY,
            Q::NInf => f64::NEG_INFINITY,
            Q::NaN => f64::NAN,
        }
    }
    fn sign(self) -> i32 {
        match self {
            Q::Sm(n, _) => n.signum() as i32,
            Q::Fin { .. } => {
                let r = self.get().unwrap();
                if r.is_zero() { 0 } else if r.is_positive() { 1 } else { -1 }
            }
            Q::PInf => 1,
            Q::NInf => -1,
            Q::NaN => 0,
        }
    }
}

fn gcd_i128(mut a: u128, mut b: u128) -> u128 {
    while b != 0 {
        let t = a % b;
        a = b;
        b = t;
    }
    a.max(1)
}

pub fn ratio_to_f64(r: &BigRational) -> f64 {
    if r.is_zero() {
        return 0.0;
    }
    // shift so that quotient has ~64 significant bits
    let nb = r.numer().bits() as i64;
    let db = r.denom().bits() as i64;
    let shift = 80 - (nb - db);
    let q: BigInt = if shift >= 0 { (r.numer() << (shift as u64)) / r.denom() } else { (r.numer() >> ((-shift) as u64)) / r.denom() };
    let qf = q.to_f64().unwrap();
    qf * (2.0f64).powi(-(shift as i32))
}

// ---------- fixed point helpers (value = int / 2^prec) ----------
fn fx_from_ratio(r: &BigRational, prec: u64) -> BigInt {
    (r.numer() << prec) / r.denom() // floor-ish; fine for our purposes
}
fn fx_to_ratio(v: BigInt, prec: u64) -> BigRational {
    // round to P bits
    let v = if prec > P { (v + (BigInt::one() << (prec - P - 1))) >> (prec - P) } else { v << (P - prec) };
    BigRational::new(v, BigInt::one() << P)
}
fn fx_mul(a: &BigInt, b: &BigInt, prec: u64) -> BigInt {
    (a * b) >> prec
}
fn fx_ln2(prec: u64) -> BigInt {
    // ln2 = 2*atanh(1/3) = 2 * sum_{k>=0} (1/3)^(2k+1)/(2k+1)
    let one = BigInt::one() << prec;
    let mut term: BigInt = &one / BigInt::from(3); // (1/3)^(2k+1)
    let mut sum = BigInt::zero();
    let mut k = 0u32;
    while !term.is_zero() {
        sum += &term / (2 * k + 1);
        term = term / 9;
        k += 1;
    }
    sum * 2
}
fn fx_exp(x: &BigRational) -> BigRational {
    let prec = P + 64;
    if x.is_zero() {
        return BigRational::one();
    }
    let ln2 = fx_ln2(prec);
    let xf = fx_from_ratio(x, prec);
    // k = round(x/ln2)
    let k: BigInt = {
        let q = (&xf << 1) / &ln2; // 2x/ln2
        (q + 1) >> 1
    };
    let ki = k.to_i64().filter(|v| v.abs() < 1_000_000).unwrap_or_else(|| panic!("{}: exp argument too large", Q_UNIMPL_MARKER));
    let r = &xf - &k * &ln2; // |r| <= ln2/2
    // further reduce by 2^8
    let s = 8u64;
    let r = r >> s;
    let one = BigInt::one() << prec;
    let mut sum = one.clone();
    let mut term = one.clone();
    let mut n = 1u32;
    loop {
        term = fx_mul(&term, &r, prec) / n;
        if term.is_zero() {
            break;
        }
        sum += &term;
        n += 1;
    }
    for _ in 0..s {
        sum = fx_mul(&sum, &sum, prec);
    }
    // sum ~ 2^prec in magnitude; exp(x) = sum * 2^ki / 2^prec, kept as an exact dyadic (no absolute-grid truncation)
    let sum = (sum + (BigInt::one() << (prec - P - 1))) >> (prec - P);
    if ki >= 0 {
        BigRational::new(sum << (ki as u64), BigInt::one() << P)
    } else {
        BigRational::new(sum, BigInt::one() << (P + (-ki) as u64))
    }
}
fn fx_ln(x: &BigRational) -> BigRational {
    // x > 0
    let prec = P + 64;
    if x.is_one() {
        return BigRational::zero();
    }
    // x = 2^k * m, m in [1,2)
    let nb = x.numer().bits() as i64;
    let db = x.denom().bits() as i64;
    let mut k = nb - db;
    let two = BigRational::from_integer(BigInt::from(2));
    let mut m = if k >= 0 { x / BigRational::from_integer(BigInt::one() << (k as u64)) } else { x * BigRational::from_integer(BigInt::one() << ((-k) as u64)) };
    while m >= two {
        m = m / &two;
        k += 1;
    }
    while m < BigRational::one() {
        m = m * &two;
        k -= 1;
    }
    // ln m = 2 atanh(z), z=(m-1)/(m+1) in [0,1/3)
    let z = (&m - BigRational::one()) / (&m + BigRational::one());
    let zf = fx_from_ratio(&z, prec);
    let z2 = fx_mul(&zf, &zf, prec);
    let mut term = zf.clone();
    let mut sum = BigInt::zero();
    let mut j = 0u32;
    while !term.is_zero() {
        sum += &term / (2 * j + 1);
        term = fx_mul(&term, &z2, prec);
        j += 1;
    }
    let lnm = sum * 2;
    let res = lnm + fx_ln2(prec) * BigInt::from(k);
    fx_to_ratio(res, prec)
}
fn fx_sincos(x: &BigRational) -> (BigRational, BigRational) {
    let prec = P + 96;
    // reduce modulo 2*pi is not needed for the crate's arguments (|x| <= 4.45); guard anyway
    if x.abs() >= BigRational::from_integer(BigInt::from(64)) {
        panic!("{}: sin/cos argument too large", Q_UNIMPL_MARKER);
    }
    let xf = fx_from_ratio(x, prec);
    let x2 = fx_mul(&xf, &xf, prec);
    let one = BigInt::one() << prec;
    // cos
    let mut c = one.clone();
    let mut term = one.clone();
    let mut n = 0u32;
    loop {
        term = -fx_mul(&term, &x2, prec) / ((2 * n + 1) * (2 * n + 2));
        if term.is_zero() {
            break;
        }
        c += &term;
        n += 1;
    }
    let mut s = xf.clone();
    let mut term = xf.clone();
    let mut n = 1u32;
    loop {
        term = -fx_mul(&term, &x2, prec) / ((2 * n) * (2 * n + 1));
        if term.is_zero() {
            break;
        }
        s += &term;
        n += 1;
    }
    (fx_to_ratio(s, prec), fx_to_ratio(c, prec))
}
fn isqrt_exact(n: &BigInt) -> Option<BigInt> {
    if n.is_negative() {
        return None;
    }
    let r = n.sqrt();
    if &r * &r == *n { Some(r) } else { None }
}
fn q_sqrt(x: &BigRational) -> BigRational {
    if let (Some(a), Some(b)) = (isqrt_exact(x.numer()), isqrt_exact(x.denom())) {
        return BigRational::new(a, b);
    }
    // relative precision: scale so that result has >= P significant fractional bits
    let nb = x.numer().bits() as i64;
    let db = x.denom().bits() as i64;
    let e = (nb - db) / 2; // approx exponent of result
    let fbits = (P as i64 - e).max(16) as u64; // fractional bits
    let scaled: BigInt = (x.numer() << (2 * fbits)) / x.denom();
    BigRational::new(scaled.sqrt(), BigInt::one() << fbits)
}

macro_rules! binop {
    ($tr:ident, $f:ident, $body:expr) => {
        impl $tr for Q {
            type Output = Q;
            fn $f(self, o: Q) -> Q {
                let f: fn(Q, Q) -> Q = $body;
                f(self, o)
            }
        }
    };
}
binop!(Add, add, |a, b| match (a, b) {
    (Q::NaN, _) | (_, Q::NaN) => Q::NaN,
    (Q::PInf, Q::NInf) | (Q::NInf, Q::PInf) => Q::NaN,
    (Q::PInf, _) | (_, Q::PInf) => Q::PInf,
    (Q::NInf, _) | (_, Q::NInf) => Q::NInf,
    // |n| < 2^63, d < 2^63: each product < 2^126, their sum < 2^127
    (Q::Sm(n1, d1), Q::Sm(n2, d2)) => Q::from_i128(n1 as i128 * d2 as i128 + n2 as i128 * d1 as i128, d1 as i128 * d2 as i128),
    _ => Q::from_ratio(a.get().unwrap() + b.get().unwrap()),
});
binop!(Sub, sub, |a, b| a + (-b));
binop!(Mul, mul, |a, b| match (a, b) {
    (Q::NaN, _) | (_, Q::NaN) => Q::NaN,
    (Q::Sm(n1, d1), Q::Sm(n2, d2)) => Q::from_i128(n1 as i128 * n2 as i128, d1 as i128 * d2 as i128),
    (x, y) if x.is_fin() && y.is_fin() => Q::from_ratio(a.get().unwrap() * b.get().unwrap()),
    _ => {
        let s = a.sign() * b.sign();
        if s == 0 { Q::NaN } else if s > 0 { Q::PInf } else { Q::NInf }
    }
});
binop!(Div, div, |a, b| match (a, b) {
    (Q::NaN, _) | (_, Q::NaN) => Q::NaN,
    (Q::Sm(n1, d1), Q::Sm(n2, d2)) if n2 != 0 => Q::from_i128(n1 as i128 * d2 as i128, d1 as i128 * n2 as i128),
    (x, y) if x.is_fin() && y.is_fin() => {
        let bv = b.get().unwrap();
        if bv.is_zero() {
            let s = a.sign();
            if s == 0 { Q::NaN } else if s > 0 { Q::PInf } else { Q::NInf }
        } else {
            Q::from_ratio(a.get().unwrap() / bv)
        }
    }
    (x, _) if x.is_fin() => Q::Sm(0, 1),
    (_, y) if y.is_fin() => {
        let s = a.sign() * if b.sign() < 0 { -1 } else { 1 };
        if s > 0 { Q::PInf } else { Q::NInf }
    }
    _ => Q::NaN,
});
binop!(Rem, rem, |_a, _b| q_unimpl());
impl Neg for Q {
    type Output = Q;
    fn neg(self) -> Q {
        match self {
            Q::NaN => Q::NaN,
            Q::PInf => Q::NInf,
            Q::NInf => Q::PInf,
            Q::Sm(n, d) => Q::Sm(-n, d), // |n| <= i64::MAX by construction
            _ => Q::from_ratio(-self.get().unwrap()),
        }
    }
}
impl PartialEq for Q {
    fn eq(&self, o: &Q) -> bool {
        self.partial_cmp(o) == Some(Ordering::Equal)
    }
}
impl PartialOrd for Q {
    fn partial_cmp(&self, o: &Q) -> Option<Ordering> {
        match (*self, *o) {
            (Q::NaN, _) | (_, Q::NaN) => None,
            (Q::PInf, Q::PInf) | (Q::NInf, Q::NInf) => Some(Ordering::Equal),
            (Q::PInf, _) | (_, Q::NInf) => Some(Ordering::Greater),
            (Q::NInf, _) | (_, Q::PInf) => Some(Ordering::Less),
            (Q::Sm(n1, d1), Q::Sm(n2, d2)) => Some((n1 as i128 * d2 as i128).cmp(&(n2 as i128 * d1 as i128))),
            (a, b) => Some(a.get().unwrap().cmp(&b.get().unwrap())),
        }
    }
}
impl Zero for Q {
    fn zero() -> Q {
        Q::from_ratio(BigRational::zero())
    }
    fn is_zero(&self) -> bool {
        match self {
            Q::Sm(n, _) => *n == 0,
            Q::Fin { .. } => self.get().unwrap().is_zero(),
            _ => false,
        }
    }
}
impl One for Q {
    fn one() -> Q {
        Q::from_ratio(BigRational::one())
    }
}
impl Num for Q {
    type FromStrRadixErr = ();
    fn from_str_radix(_: &str, _: u32) -> Result<Q, ()> {
        Err(())
    }
}
impl ToPrimitive for Q {
    fn to_i64(&self) -> Option<i64> {
        self.get().and_then(|r| r.to_integer().to_i64())
    }
    fn to_u64(&self) -> Option<u64> {
        self.get().and_then(|r| r.to_integer().to_u64())
    }
    fn to_f64(&self) -> Option<f64> {
        Some(self.to_f64_lossy())
    }
}
impl NumCast for Q {
    fn from<T: ToPrimitive>(n: T) -> Option<Q> {
        // integers exact via i128/u128 when lossless, else via f64 (exact dyadic value of the literal)
        if let Some(f) = n.to_f64() {
            if let Some(i) = n.to_i128() {
                if (i as f64) == f && f.fract() == 0.0 {
                    return Some(Q::from_ratio(BigRational::from_integer(BigInt::from(i))));
                }
            }
            return Some(Q::from_f64_exact(f));
        }
        None
    }
}
/// Marker used by the runner to map "the crate started calling a Float method Q does not model" to exit 2.
pub const Q_UNIMPL_MARKER: &str = "Q-UNIMPLEMENTED";
#[cold]
#[track_caller]
fn q_unimpl() -> ! {
    panic!("{}: num::Float method not modelled by the exact scalar at {}", Q_UNIMPL_MARKER, std::panic::Location::caller())
}
fn lift1(x: Q, f: impl Fn(&BigRational) -> Q, pinf: Q, ninf: Q) -> Q {
    match x {
        Q::NaN => Q::NaN,
        Q::PInf => pinf,
        Q::NInf => ninf,
        _ => f(&x.get().unwrap()),
    }
}
impl num::Float for Q {
    fn nan() -> Q { Q::NaN }
    fn infinity() -> Q { Q::PInf }
    fn neg_infinity() -> Q { Q::NInf }
    fn neg_zero() -> Q { Q::zero() }
    fn min_value() -> Q { Q::from_ratio(BigRational::from_integer(-(BigInt::one() << 1024u32))) }
    fn max_value() -> Q { Q::from_ratio(BigRational::from_integer(BigInt::one() << 1024u32)) }
    fn min_positive_value() -> Q { Q::from_ratio(BigRational::new(BigInt::one(), BigInt::one() << GRID)) }
    // f64's machine epsilon, kept inline (Q::Sm): a view that consults T::epsilon() in an O(N^2) loop would otherwise push one
    // big value per call and end the case as inconclusive (arena limit) instead of being compared. The crate does not use it today.
    fn epsilon() -> Q { Q::Sm(1, 1i64 << 52) }
    fn is_nan(self) -> bool { matches!(self, Q::NaN) }
    fn is_infinite(self) -> bool { matches!(self, Q::PInf | Q::NInf) }
    fn is_finite(self) -> bool { self.is_fin() }
    fn is_normal(self) -> bool { self.is_finite() && !self.is_zero() }
    fn classify(self) -> FpCategory {
        match self {
            Q::NaN => FpCategory::Nan,
            Q::PInf | Q::NInf => FpCategory::Infinite,
            _ => if self.is_zero() { FpCategory::Zero } else { FpCategory::Normal },
        }
    }
    fn floor(self) -> Q { lift1(self, |r| Q::from_ratio(r.floor()), Q::PInf, Q::NInf) }
    fn ceil(self) -> Q { lift1(self, |r| Q::from_ratio(r.ceil()), Q::PInf, Q::NInf) }
    fn round(self) -> Q { lift1(self, |r| Q::from_ratio(r.round()), Q::PInf, Q::NInf) }
    fn trunc(self) -> Q { lift1(self, |r| Q::from_ratio(r.trunc()), Q::PInf, Q::NInf) }
    fn fract(self) -> Q { lift1(self, |r| Q::from_ratio(r.fract()), Q::NaN, Q::NaN) }
    fn abs(self) -> Q { lift1(self, |r| Q::from_ratio(r.abs()), Q::PInf, Q::PInf) }
    fn signum(self) -> Q {
        // IEEE: signum(+0.0) = 1.0 ; Q has a single (positive) zero
        match self {
            Q::NaN => Q::NaN,
            _ => if self.sign() < 0 { -Q::one() } else { Q::one() },
        }
    }
    fn is_sign_positive(self) -> bool { self.sign() >= 0 && !self.is_nan() }
    fn is_sign_negative(self) -> bool { self.sign() < 0 }
    fn mul_add(self, a: Q, b: Q) -> Q { self * a + b }
    fn recip(self) -> Q { Q::one() / self }
    fn powi(self, n: i32) -> Q {
        match self {
            Q::Sm(..) | Q::Fin { .. } => {
                let r = self.get().unwrap();
                if n >= 0 { Q::from_ratio(num::pow(r, n as usize)) } else { Q::one() / Q::from_ratio(num::pow(r, (-n) as usize)) }
            }
            Q::NaN => Q::NaN,
            // IEEE: inf^0 = 1, (+-inf)^n = +-inf by parity for n > 0, 0 for n < 0
            _ => {
                if n == 0 {
                    Q::one()
                } else if n < 0 {
                    Q::zero()
                } else if matches!(self, Q::NInf) && n % 2 != 0 {
                    Q::NInf
                } else {
                    Q::PInf
                }
            }
        }
    }
    fn powf(self, _n: Q) -> Q { q_unimpl() }
    fn sqrt(self) -> Q {
        lift1(self, |r| if r.is_negative() { Q::NaN } else { Q::from_ratio(q_sqrt(r)) }, Q::PInf, Q::NaN)
    }
    fn exp(self) -> Q { lift1(self, |r| Q::from_ratio(fx_exp(r)), Q::PInf, Q::zero()) }
    fn exp2(self) -> Q { q_unimpl() }
    fn ln(self) -> Q {
        lift1(self, |r| if r.is_zero() { Q::NInf } else if r.is_negative() { Q::NaN } else { Q::from_ratio(fx_ln(r)) }, Q::PInf, Q::NaN)
    }
    fn log(self, _b: Q) -> Q { q_unimpl() }
    fn log2(self) -> Q {
        lift1(self, |r| {
            if r.is_zero() { return Q::NInf; }
            if r.is_negative() { return Q::NaN; }
            // exact for powers of two
            if r.numer().is_one() && (r.denom() & (r.denom() - BigInt::one())).is_zero() {
                return Q::from_ratio(BigRational::from_integer(-BigInt::from(r.denom().bits() - 1)));
            }
            if r.denom().is_one() && (r.numer() & (r.numer() - BigInt::one())).is_zero() {
                return Q::from_ratio(BigRational::from_integer(BigInt::from(r.numer().bits() - 1)));
            }
            let ln2 = BigRational::new(fx_ln2(P + 64), BigInt::one() << (P + 64));
            Q::from_ratio(fx_ln(r) / ln2)
        }, Q::PInf, Q::NaN)
    }
    fn log10(self) -> Q { q_unimpl() }
    fn max(self, o: Q) -> Q { if self.is_nan() { o } else if o.is_nan() { self } else if self >= o { self } else { o } }
    fn min(self, o: Q) -> Q { if self.is_nan() { o } else if o.is_nan() { self } else if self <= o { self } else { o } }
    fn abs_sub(self, _o: Q) -> Q { q_unimpl() }
    fn cbrt(self) -> Q { q_unimpl() }
    fn hypot(self, _o: Q) -> Q { q_unimpl() }
    fn sin(self) -> Q { lift1(self, |r| Q::from_ratio(fx_sincos(r).0), Q::NaN, Q::NaN) }
    fn cos(self) -> Q { lift1(self, |r| Q::from_ratio(fx_sincos(r).1), Q::NaN, Q::NaN) }
    fn tan(self) -> Q { q_unimpl() }
    fn asin(self) -> Q { q_unimpl() }
    fn acos(self) -> Q { q_unimpl() }
    fn atan(self) -> Q { q_unimpl() }
    fn atan2(self, _o: Q) -> Q { q_unimpl() }
    fn sin_cos(self) -> (Q, Q) { (self.sin(), self.cos()) }
    fn exp_m1(self) -> Q { q_unimpl() }
    fn ln_1p(self) -> Q { q_unimpl() }
    fn sinh(self) -> Q { q_unimpl() }
    fn cosh(self) -> Q { q_unimpl() }
    fn tanh(self) -> Q {
        lift1(self, |r| {
            if r.is_zero() { return Q::zero(); }
            // |x| >= 80: 1 - |tanh x| < 2 e^-160 < 2^-230, below the 2^-192 accuracy of the irrational functions
            if r.abs() >= BigRational::from_integer(BigInt::from(80)) {
                return if r.is_positive() { Q::one() } else { -Q::one() };
            }
            let e = fx_exp(&(r * BigRational::from_integer(BigInt::from(2))));
            Q::from_ratio((&e - BigRational::one()) / (&e + BigRational::one()))
        }, Q::one(), -Q::one())
    }
    fn asinh(self) -> Q { q_unimpl() }
    fn acosh(self) -> Q { q_unimpl() }
    fn atanh(self) -> Q { q_unimpl() }
    fn integer_decode(self) -> (u64, i16, i8) { q_unimpl() }
}
#[allow(dead_code)]
pub fn sign_of(b: &BigInt) -> Sign { b.sign() }

/// A value extracted from the arena (owned), for oracles.
#[derive(Clone, Debug, PartialEq)]
pub enum XV {
    Fin(BigRational),
    PInf,
    NInf,
    NaN,
}
impl XV {
    pub fn fin(&self) -> Option<&BigRational> {
        if let XV::Fin(r) = self { Some(r) } else { None }
    }
    pub fn is_finite(&self) -> bool {
        matches!(self, XV::Fin(_))
    }
    pub fn from_f64(f: f64) -> XV {
        if f.is_nan() { XV::NaN } else if f == f64::INFINITY { XV::PInf } else if f == f64::NEG_INFINITY { XV::NInf } else { XV::Fin(BigRational::from_float(f).unwrap()) }
    }
    pub fn from_f32(f: f32) -> XV {
        XV::from_f64(f as f64)
    }
    pub fn show(&self) -> String {
        match self {
            XV::Fin(r) => format!("{:e}", ratio_to_f64(r)),
            XV::PInf => "inf".into(),
            XV::NInf => "-inf".into(),
            XV::NaN => "NaN".into(),
        }
    }
}
impl Q {
    /// ln as an owned rational (for oracles)
    pub fn ln_pub(self) -> BigRational {
        <Q as num::Float>::ln(self).get().expect("finite ln")
    }
    pub fn extract(self) -> XV {
        match self {
            Q::Sm(..) | Q::Fin { .. } => XV::Fin(self.get().unwrap()),
            Q::PInf => XV::PInf,
            Q::NInf => XV::NInf,
            Q::NaN => XV::NaN,
        }
    }
}
pub fn rat(n: i64, d: i64) -> BigRational {
    BigRational::new(BigInt::from(n), BigInt::from(d))
}
pub fn rat_f64(f: f64) -> BigRational {
    BigRational::from_float(f).expect("finite")
}
pub fn q_sqrt_ratio(x: &BigRational) -> BigRational {
    q_sqrt(x)
}
/// 2^-k as a rational
pub fn pow2neg(k: u32) -> BigRational {
    BigRational::new(BigInt::one(), BigInt::one() << k)
}

// ---------------------------------------------------------------------------------------------
// Extra std / num traits that f32 and f64 have and that a refactor of the crate may start to require of its scalar
// (`sum += x`, `iter().sum()`, `T::default()`, `{}` formatting, `T::PI()`, `x.into()`): implemented so that such a change
// still builds against the harness instead of turning every check into a build error.
impl std::ops::AddAssign for Q { fn add_assign(&mut self, o: Q) { *self = *self + o; } }
impl std::ops::SubAssign for Q { fn sub_assign(&mut self, o: Q) { *self = *self - o; } }
impl std::ops::MulAssign for Q { fn mul_assign(&mut self, o: Q) { *self = *self * o; } }
impl std::ops::DivAssign for Q { fn div_assign(&mut self, o: Q) { *self = *self / o; } }
impl std::ops::RemAssign for Q { fn rem_assign(&mut self, o: Q) { *self = *self % o; } }
impl std::iter::Sum for Q { fn sum<I: Iterator<Item = Q>>(it: I) -> Q { it.fold(Q::zero(), |a, b| a + b) } }
impl<'a> std::iter::Sum<&'a Q> for Q { fn sum<I: Iterator<Item = &'a Q>>(it: I) -> Q { it.fold(Q::zero(), |a, b| a + *b) } }
impl std::iter::Product for Q { fn product<I: Iterator<Item = Q>>(it: I) -> Q { it.fold(Q::one(), |a, b| a * b) } }
impl<'a> std::iter::Product<&'a Q> for Q { fn product<I: Iterator<Item = &'a Q>>(it: I) -> Q { it.fold(Q::one(), |a, b| a * *b) } }
impl Default for Q { fn default() -> Q { Q::zero() } }
impl std::fmt::Display for Q { fn fmt(&self, f: &mut std::fmt::Formatter<'_>) -> std::fmt::Result { write!(f, "{}", self.extract().show()) } }
impl std::fmt::LowerExp for Q { fn fmt(&self, f: &mut std::fmt::Formatter<'_>) -> std::fmt::Result { write!(f, "{}", self.extract().show()) } }
impl From<Q> for f64 { fn from(q: Q) -> f64 { q.to_f64_lossy() } }
impl From<f32> for Q { fn from(x: f32) -> Q { Q::from_f64_exact(x as f64) } }
macro_rules! q_consts { ($($name:ident = $val:expr),* $(,)?) => { impl num::traits::FloatConst for Q { $( fn $name() -> Q { Q::from_f64_exact($val) } )* } }; }
q_consts!(
    E = std::f64::consts::E, FRAC_1_PI = std::f64::consts::FRAC_1_PI, FRAC_1_SQRT_2 = std::f64::consts::FRAC_1_SQRT_2, FRAC_2_PI = std::f64::consts::FRAC_2_PI,
    FRAC_2_SQRT_PI = std::f64::consts::FRAC_2_SQRT_PI, FRAC_PI_2 = std::f64::consts::FRAC_PI_2, FRAC_PI_3 = std::f64::consts::FRAC_PI_3, FRAC_PI_4 = std::f64::consts::FRAC_PI_4,
    FRAC_PI_6 = std::f64::consts::FRAC_PI_6, FRAC_PI_8 = std::f64::consts::FRAC_PI_8, LN_10 = std::f64::consts::LN_10, LN_2 = std::f64::consts::LN_2, LOG10_E = std::f64::consts::LOG10_E,
    LOG2_E = std::f64::consts::LOG2_E, PI = std::f64::consts::PI, SQRT_2 = std::f64::consts::SQRT_2,
);

/// Self-test of the inline fast paths against plain BigRational arithmetic (run by `vcheck selftest-q`).
pub fn selftest(iterations: u64) -> Result<u64, String> {
    use num::traits::Signed as _;
    let mut st: u64 = 0x5EED_1234_ABCD_EF01;
    let mut next = move || {
        st = st.wrapping_add(0x9E3779B97F4A7C15);
        let mut z = st;
        z = (z ^ (z >> 30)).wrapping_mul(0xBF58476D1CE4E5B9);
        z = (z ^ (z >> 27)).wrapping_mul(0x94D049BB133111EB);
        z ^ (z >> 31)
    };
    let pick = |r: u64, w: u64| -> i64 {
        match w % 8 {
            0 => 0,
            1 => 1,
            2 => -1,
            3 => i64::MAX,
            4 => -i64::MAX,
            5 => (r % 2001) as i64 - 1000,
            6 => (r >> 1) as i64,
            _ => -((r >> 3) as i64),
        }
    };
    let mut checked = 0;
    for _ in 0..iterations {
        arena_reset();
        let (n1, n2) = (pick(next(), next()), pick(next(), next()));
        let d1 = pick(next(), next()).checked_abs().unwrap_or(1).max(1);
        let d2 = pick(next(), next()).checked_abs().unwrap_or(1).max(1);
        let (r1, r2) = (BigRational::new(BigInt::from(n1), BigInt::from(d1)), BigRational::new(BigInt::from(n2), BigInt::from(d2)));
        let (a, b) = (Q::from_ratio(r1.clone()), Q::from_ratio(r2.clone()));
        let same = |q: Q, r: &BigRational, what: &str| -> Result<(), String> {
            match q.get() {
                Some(v) if &v == r => {
                    if let Q::Sm(n, d) = q {
                        if d <= 0 || n == i64::MIN || gcd_i128(n.unsigned_abs() as u128, d as u128) != 1 {
                            return Err(format!("{what}: inline value {n}/{d} not normalised"));
                        }
                    }
                    Ok(())
                }
                other => Err(format!("{what}({n1}/{d1}, {n2}/{d2}) = {other:?}, expected {r}")),
            }
        };
        same(a + b, &(&r1 + &r2), "add")?;
        same(a - b, &(&r1 - &r2), "sub")?;
        same(a * b, &(&r1 * &r2), "mul")?;
        if !r2.is_zero() {
            same(a / b, &(&r1 / &r2), "div")?;
        } else {
            let q = a / b;
            let ok = if r1.is_zero() { matches!(q, Q::NaN) } else if r1.is_positive() { matches!(q, Q::PInf) } else { matches!(q, Q::NInf) };
            if !ok {
                return Err(format!("div by zero: {n1}/{d1} / 0 = {q:?}"));
            }
        }
        same(-a, &(-&r1), "neg")?;
        if a.partial_cmp(&b) != Some(r1.cmp(&r2)) {
            return Err(format!("cmp({n1}/{d1}, {n2}/{d2}) = {:?}", a.partial_cmp(&b)));
        }
        if (a == b) != (r1 == r2) {
            return Err("eq".into());
        }
        checked += 7;
    }
    Ok(checked)
}
