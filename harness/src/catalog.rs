//! Run-time catalogue of all public views of the crate, composed through `Box<dyn DynView<T>>` so that
//! every wrapper x inner (x inner) composition is available at run time for T in {f64, f32, Q}.
#![allow(clippy::all)]
use serde::{Deserialize, Serialize};
use std::cell::RefCell;
use std::rc::Rc;
use num::Float;
use sliding_features::{pure_functions::*, rolling::*, sliding_windows::*, View};
use std::fmt::Debug;

/// Everything f32 and f64 offer that a refactor of the crate might plausibly start to require of its scalar.
pub trait Scalar: Float + Debug + Default + std::fmt::Display + std::fmt::LowerExp + num::traits::NumAssign + num::traits::FloatConst + std::iter::Sum + std::iter::Product + Into<f64> + 'static {}
impl<T: Float + Debug + Default + std::fmt::Display + std::fmt::LowerExp + num::traits::NumAssign + num::traits::FloatConst + std::iter::Sum + std::iter::Product + Into<f64> + 'static> Scalar for T {}

pub trait DynView<T: Scalar>: View<T> {
    fn try_clone(&self) -> Option<Box<dyn DynView<T>>>;
    fn welford_mean(&self) -> Option<T> { None }
    fn welford_variance(&self) -> Option<T> { None }
}
pub type BoxView<T> = Box<dyn DynView<T>>;

impl<T: Scalar> View<T> for BoxView<T> {
    fn update(&mut self, v: T) { (**self).update(v) }
    fn last(&self) -> Option<T> { (**self).last() }
}
impl<T: Scalar> Clone for BoxView<T> {
    fn clone(&self) -> Self { (**self).try_clone().expect("view tree contains a non-Clone node (Add)") }
}

macro_rules! dyn_clone {
    ($($ty:ty),* $(,)?) => { $(
        impl<T: Scalar> DynView<T> for $ty {
            fn try_clone(&self) -> Option<BoxView<T>> { Some(Box::new(self.clone())) }
        }
    )* };
}
dyn_clone!(
    Echo<T>, Constant<T>, Tanh<T, BoxView<T>>, GTE<T, BoxView<T>>, LTE<T, BoxView<T>>,
    Subtract<T, BoxView<T>, BoxView<T>>, Multiply<T, BoxView<T>, BoxView<T>>, Divide<T, BoxView<T>, BoxView<T>>,
    Drawdown<T, BoxView<T>>, LnReturn<T, BoxView<T>>,
    Alma<T, BoxView<T>>, BinaryEntropy<T, BoxView<T>>, CenterOfGravity<T, BoxView<T>>, CorrelationTrendIndicator<T, BoxView<T>>,
    Cumulative<T, BoxView<T>>, CyberCycle<T, BoxView<T>>, EhlersFisherTransform<T, BoxView<T>, BoxView<T>>, Ema<T, BoxView<T>>,
    HLNormalizer<T, BoxView<T>>, LaguerreFilter<T, BoxView<T>>, LaguerreRSI<T, BoxView<T>>, Max<T, BoxView<T>>, Min<T, BoxView<T>>,
    MyRSI<T, BoxView<T>>, NoiseEliminationTechnology<T, BoxView<T>>, PolarizedFractalEfficiency<T, BoxView<T>, BoxView<T>>,
    ReFlex<T, BoxView<T>>, Roc<T, BoxView<T>>, RoofingFilter<T, BoxView<T>>, Rsi<T, BoxView<T>>, Sma<T, BoxView<T>>,
    SuperSmoother<T, BoxView<T>>, TrendFlex<T, BoxView<T>>, Vst<T, BoxView<T>>, Vsct<T, BoxView<T>>,
);
impl<T: Scalar> DynView<T> for Add<T, BoxView<T>, BoxView<T>> {
    fn try_clone(&self) -> Option<BoxView<T>> { None } // Add does not implement Clone
}
impl<T: Scalar> DynView<T> for WelfordOnline<T, BoxView<T>> {
    fn try_clone(&self) -> Option<BoxView<T>> { Some(Box::new(self.clone())) }
    fn welford_mean(&self) -> Option<T> { Some(self.mean()) }
    fn welford_variance(&self) -> Option<T> { Some(self.variance()) }
}
impl<T: Scalar> DynView<T> for WelfordRolling<T, BoxView<T>> {
    fn try_clone(&self) -> Option<BoxView<T>> { Some(Box::new(self.clone())) }
    fn welford_mean(&self) -> Option<T> { Some(self.mean()) }
    fn welford_variance(&self) -> Option<T> { Some(self.variance()) }
}

#[derive(Clone, Debug, PartialEq, Serialize, Deserialize)]
pub enum Spec {
    Echo,
    Constant(f64),
    Tanh(Box<Spec>),
    Gte(Box<Spec>, f64),
    Lte(Box<Spec>, f64),
    Add(Box<Spec>, Box<Spec>),
    Subtract(Box<Spec>, Box<Spec>),
    Multiply(Box<Spec>, Box<Spec>),
    Divide(Box<Spec>, Box<Spec>),
    Drawdown(Box<Spec>),
    LnReturn(Box<Spec>),
    WelfordRolling(Box<Spec>),
    Alma(Box<Spec>, usize),
    AlmaCustom(Box<Spec>, usize, f64, f64),
    BinaryEntropy(Box<Spec>, usize),
    CenterOfGravity(Box<Spec>, usize),
    Cti(Box<Spec>, usize),
    Cumulative(Box<Spec>, usize),
    CyberCycle(Box<Spec>, usize),
    Eft(Box<Spec>, Box<Spec>, usize),
    Ema(Box<Spec>, usize),
    EmaAlpha(Box<Spec>, usize, f64),
    HlNormalizer(Box<Spec>, usize),
    LaguerreFilter(Box<Spec>, f64),
    LaguerreRsi(Box<Spec>, usize),
    Max(Box<Spec>, usize),
    Min(Box<Spec>, usize),
    MyRsi(Box<Spec>, usize),
    Net(Box<Spec>, usize),
    Pfe(Box<Spec>, Box<Spec>, usize),
    ReFlex(Box<Spec>, usize),
    Roc(Box<Spec>, usize),
    Roofing(Box<Spec>, usize, usize),
    Rsi(Box<Spec>, usize),
    Sma(Box<Spec>, usize),
    SuperSmoother(Box<Spec>, usize),
    TrendFlex(Box<Spec>, usize),
    Vst(Box<Spec>, usize),
    Vsct(Box<Spec>, usize),
    WelfordOnline(Box<Spec>, usize),
}

fn c<T: Scalar>(x: f64) -> T { T::from(x).expect("can convert") }

/// Build with a caller-supplied leaf factory (Echo, Probe, Gate, ...).
pub fn build_with<T: Scalar>(s: &Spec, leaf: &mut dyn FnMut() -> BoxView<T>) -> BoxView<T> {
    macro_rules! b { ($x:expr) => { build_with::<T>($x, leaf) }; }
    match s {
        Spec::Echo => leaf(),
        Spec::Constant(v) => Box::new(Constant::new(c::<T>(*v))),
        Spec::Tanh(a) => Box::new(Tanh::new(b!(a))),
        Spec::Gte(a, v) => Box::new(GTE::new(b!(a), c::<T>(*v))),
        Spec::Lte(a, v) => Box::new(LTE::new(b!(a), c::<T>(*v))),
        Spec::Add(a, x) => { let (p, q) = (b!(a), b!(x)); Box::new(Add::new(p, q)) }
        Spec::Subtract(a, x) => { let (p, q) = (b!(a), b!(x)); Box::new(Subtract::new(p, q)) }
        Spec::Multiply(a, x) => { let (p, q) = (b!(a), b!(x)); Box::new(Multiply::new(p, q)) }
        Spec::Divide(a, x) => { let (p, q) = (b!(a), b!(x)); Box::new(Divide::new(p, q)) }
        Spec::Drawdown(a) => Box::new(Drawdown::new(b!(a))),
        Spec::LnReturn(a) => Box::new(LnReturn::new(b!(a))),
        Spec::WelfordRolling(a) => Box::new(WelfordRolling::new(b!(a))),
        Spec::Alma(a, n) => Box::new(Alma::new(b!(a), *n)),
        Spec::AlmaCustom(a, n, sg, of) => Box::new(Alma::new_custom(b!(a), *n, c::<T>(*sg), c::<T>(*of))),
        Spec::BinaryEntropy(a, n) => Box::new(BinaryEntropy::new(b!(a), *n)),
        Spec::CenterOfGravity(a, n) => Box::new(CenterOfGravity::new(b!(a), *n)),
        Spec::Cti(a, n) => Box::new(CorrelationTrendIndicator::new(b!(a), *n)),
        Spec::Cumulative(a, n) => Box::new(Cumulative::new(b!(a), *n)),
        Spec::CyberCycle(a, n) => Box::new(CyberCycle::new(b!(a), *n)),
        // the moving-average sub-view always sits over a plain Echo: its leaf never sees raw input
        Spec::Eft(a, m, n) => { let v = b!(a); let ma = build::<T>(m); Box::new(EhlersFisherTransform::new(v, ma, *n)) }
        Spec::Ema(a, n) => Box::new(Ema::new(b!(a), *n)),
        Spec::EmaAlpha(a, n, al) => Box::new(Ema::with_alpha(b!(a), *n, c::<T>(*al))),
        Spec::HlNormalizer(a, n) => Box::new(HLNormalizer::new(b!(a), *n)),
        Spec::LaguerreFilter(a, g) => Box::new(LaguerreFilter::new(b!(a), c::<T>(*g))),
        Spec::LaguerreRsi(a, n) => Box::new(LaguerreRSI::new(b!(a), *n)),
        Spec::Max(a, n) => Box::new(Max::new(b!(a), *n)),
        Spec::Min(a, n) => Box::new(Min::new(b!(a), *n)),
        Spec::MyRsi(a, n) => Box::new(MyRSI::new(b!(a), *n)),
        Spec::Net(a, n) => Box::new(NoiseEliminationTechnology::new(b!(a), *n)),
        Spec::Pfe(a, m, n) => { let v = b!(a); let ma = build::<T>(m); Box::new(PolarizedFractalEfficiency::new(v, ma, *n)) }
        Spec::ReFlex(a, n) => Box::new(ReFlex::new(b!(a), *n)),
        Spec::Roc(a, n) => Box::new(Roc::new(b!(a), *n)),
        Spec::Roofing(a, n, m) => Box::new(RoofingFilter::new(b!(a), *n, *m)),
        Spec::Rsi(a, n) => Box::new(Rsi::new(b!(a), *n)),
        Spec::Sma(a, n) => Box::new(Sma::new(b!(a), *n)),
        Spec::SuperSmoother(a, n) => Box::new(SuperSmoother::new(b!(a), *n)),
        Spec::TrendFlex(a, n) => Box::new(TrendFlex::new(b!(a), *n)),
        Spec::Vst(a, n) => Box::new(Vst::new(b!(a), *n)),
        Spec::Vsct(a, n) => Box::new(Vsct::new(b!(a), *n)),
        Spec::WelfordOnline(a, n) => Box::new(WelfordOnline::new(b!(a), *n)),
    }
}
pub fn build<T: Scalar>(s: &Spec) -> BoxView<T> {
    build_with::<T>(s, &mut || Box::new(Echo::new()))
}

/// Rebuild the outermost node of `s` over a plain Echo (unary) — used by the decomposition oracle.
pub fn outer_over_echo(s: &Spec) -> Option<(Spec, Spec)> {
    // returns (outer over Echo, inner)
    macro_rules! u { ($v:ident, $a:expr $(, $p:expr)*) => { Some((Spec::$v(Box::new(Spec::Echo) $(, $p.clone())*), (**$a).clone())) }; }
    match s {
        Spec::Tanh(a) => u!(Tanh, a), Spec::Gte(a, v) => u!(Gte, a, v), Spec::Lte(a, v) => u!(Lte, a, v),
        Spec::Drawdown(a) => u!(Drawdown, a), Spec::LnReturn(a) => u!(LnReturn, a), Spec::WelfordRolling(a) => u!(WelfordRolling, a),
        Spec::Alma(a, n) => u!(Alma, a, n), Spec::AlmaCustom(a, n, x, y) => u!(AlmaCustom, a, n, x, y), Spec::BinaryEntropy(a, n) => u!(BinaryEntropy, a, n),
        Spec::CenterOfGravity(a, n) => u!(CenterOfGravity, a, n), Spec::Cti(a, n) => u!(Cti, a, n), Spec::Cumulative(a, n) => u!(Cumulative, a, n),
        Spec::CyberCycle(a, n) => u!(CyberCycle, a, n), Spec::Eft(a, m, n) => u!(Eft, a, m, n), Spec::Ema(a, n) => u!(Ema, a, n), Spec::EmaAlpha(a, n, x) => u!(EmaAlpha, a, n, x),
        Spec::HlNormalizer(a, n) => u!(HlNormalizer, a, n), Spec::LaguerreFilter(a, g) => u!(LaguerreFilter, a, g), Spec::LaguerreRsi(a, n) => u!(LaguerreRsi, a, n),
        Spec::Max(a, n) => u!(Max, a, n), Spec::Min(a, n) => u!(Min, a, n), Spec::MyRsi(a, n) => u!(MyRsi, a, n), Spec::Net(a, n) => u!(Net, a, n),
        Spec::Pfe(a, m, n) => u!(Pfe, a, m, n), Spec::ReFlex(a, n) => u!(ReFlex, a, n), Spec::Roc(a, n) => u!(Roc, a, n), Spec::Roofing(a, n, m) => u!(Roofing, a, n, m),
        Spec::Rsi(a, n) => u!(Rsi, a, n), Spec::Sma(a, n) => u!(Sma, a, n), Spec::SuperSmoother(a, n) => u!(SuperSmoother, a, n), Spec::TrendFlex(a, n) => u!(TrendFlex, a, n),
        Spec::Vst(a, n) => u!(Vst, a, n), Spec::Vsct(a, n) => u!(Vsct, a, n), Spec::WelfordOnline(a, n) => u!(WelfordOnline, a, n),
        _ => None,
    }
}


// ---------------------------------------------------------------------------------------------
// Harness-owned leaf views (they implement the crate's public View trait, as the crate invites).

/// An Echo that appends every value it is given to a shared log.
#[derive(Clone)]
pub struct Probe<T> {
    pub log: Rc<RefCell<Vec<T>>>,
    out: Option<T>,
}
impl<T: Scalar> Probe<T> {
    pub fn new(log: Rc<RefCell<Vec<T>>>) -> Self { Probe { log, out: None } }
}
impl<T: Scalar> View<T> for Probe<T> {
    fn update(&mut self, v: T) { self.log.borrow_mut().push(v); self.out = Some(v); }
    fn last(&self) -> Option<T> { self.out }
}
impl<T: Scalar> DynView<T> for Probe<T> {
    fn try_clone(&self) -> Option<BoxView<T>> { Some(Box::new(self.clone())) }
}
/// Answers None for its first k updates, then echoes.
#[derive(Clone)]
pub struct Gate<T> { k: usize, seen: usize, out: Option<T> }
impl<T: Scalar> Gate<T> { pub fn new(k: usize) -> Self { Gate { k, seen: 0, out: None } } }
impl<T: Scalar> View<T> for Gate<T> {
    fn update(&mut self, v: T) { self.seen += 1; if self.seen > self.k { self.out = Some(v); } }
    fn last(&self) -> Option<T> { self.out }
}
impl<T: Scalar> DynView<T> for Gate<T> {
    fn try_clone(&self) -> Option<BoxView<T>> { Some(Box::new(self.clone())) }
}
/// Never has a value.
#[derive(Clone)]
pub struct Mute;
impl<T: Scalar> View<T> for Mute {
    fn update(&mut self, _v: T) {}
    fn last(&self) -> Option<T> { None }
}
impl<T: Scalar> DynView<T> for Mute {
    fn try_clone(&self) -> Option<BoxView<T>> { Some(Box::new(Mute)) }
}
pub fn build_gated<T: Scalar>(s: &Spec, k: usize) -> BoxView<T> {
    build_with::<T>(s, &mut || Box::new(Gate::new(k)))
}
pub fn build_muted<T: Scalar>(s: &Spec) -> BoxView<T> {
    build_with::<T>(s, &mut || Box::new(Mute))
}
/// Build with Probe leaves; returns the view and the logs of all leaves (in construction order).
pub fn build_probed<T: Scalar>(s: &Spec) -> (BoxView<T>, Vec<Rc<RefCell<Vec<T>>>>) {
    let logs: RefCell<Vec<Rc<RefCell<Vec<T>>>>> = RefCell::new(vec![]);
    let v = build_with::<T>(s, &mut || {
        let l = Rc::new(RefCell::new(vec![]));
        logs.borrow_mut().push(l.clone());
        Box::new(Probe::new(l))
    });
    (v, logs.into_inner())
}

impl Spec {
    /// Variant name.
    pub fn name(&self) -> &'static str {
        match self {
            Spec::Echo => "Echo", Spec::Constant(_) => "Constant", Spec::Tanh(_) => "Tanh", Spec::Gte(..) => "GTE", Spec::Lte(..) => "LTE",
            Spec::Add(..) => "Add", Spec::Subtract(..) => "Subtract", Spec::Multiply(..) => "Multiply", Spec::Divide(..) => "Divide",
            Spec::Drawdown(_) => "Drawdown", Spec::LnReturn(_) => "LnReturn", Spec::WelfordRolling(_) => "WelfordRolling",
            Spec::Alma(..) => "Alma", Spec::AlmaCustom(..) => "AlmaCustom", Spec::BinaryEntropy(..) => "BinaryEntropy", Spec::CenterOfGravity(..) => "CenterOfGravity",
            Spec::Cti(..) => "CTI", Spec::Cumulative(..) => "Cumulative", Spec::CyberCycle(..) => "CyberCycle", Spec::Eft(..) => "EFT", Spec::Ema(..) => "Ema",
            Spec::EmaAlpha(..) => "EmaAlpha", Spec::HlNormalizer(..) => "HLNormalizer", Spec::LaguerreFilter(..) => "LaguerreFilter", Spec::LaguerreRsi(..) => "LaguerreRSI",
            Spec::Max(..) => "Max", Spec::Min(..) => "Min", Spec::MyRsi(..) => "MyRSI", Spec::Net(..) => "NET", Spec::Pfe(..) => "PFE", Spec::ReFlex(..) => "ReFlex",
            Spec::Roc(..) => "Roc", Spec::Roofing(..) => "RoofingFilter", Spec::Rsi(..) => "Rsi", Spec::Sma(..) => "Sma", Spec::SuperSmoother(..) => "SuperSmoother",
            Spec::TrendFlex(..) => "TrendFlex", Spec::Vst(..) => "Vst", Spec::Vsct(..) => "Vsct", Spec::WelfordOnline(..) => "WelfordOnline",
        }
    }
    /// Direct sub-specs that receive the raw input (view children), then the embedded moving average (if any).
    pub fn children(&self) -> Vec<&Spec> {
        match self {
            Spec::Echo | Spec::Constant(_) => vec![],
            Spec::Tanh(a) | Spec::Gte(a, _) | Spec::Lte(a, _) | Spec::Drawdown(a) | Spec::LnReturn(a) | Spec::WelfordRolling(a) => vec![a],
            Spec::Add(a, b) | Spec::Subtract(a, b) | Spec::Multiply(a, b) | Spec::Divide(a, b) => vec![a, b],
            Spec::Eft(a, m, _) | Spec::Pfe(a, m, _) => vec![a, m],
            Spec::Alma(a, _) | Spec::AlmaCustom(a, ..) | Spec::BinaryEntropy(a, _) | Spec::CenterOfGravity(a, _) | Spec::Cti(a, _) | Spec::Cumulative(a, _)
            | Spec::CyberCycle(a, _) | Spec::Ema(a, _) | Spec::EmaAlpha(a, ..) | Spec::HlNormalizer(a, _) | Spec::LaguerreFilter(a, _) | Spec::LaguerreRsi(a, _)
            | Spec::Max(a, _) | Spec::Min(a, _) | Spec::MyRsi(a, _) | Spec::Net(a, _) | Spec::ReFlex(a, _) | Spec::Roc(a, _) | Spec::Roofing(a, ..)
            | Spec::Rsi(a, _) | Spec::Sma(a, _) | Spec::SuperSmoother(a, _) | Spec::TrendFlex(a, _) | Spec::Vst(a, _) | Spec::Vsct(a, _) | Spec::WelfordOnline(a, _) => vec![a],
        }
    }
    pub fn any(&self, f: &dyn Fn(&Spec) -> bool) -> bool {
        f(self) || self.children().iter().any(|c| c.any(f))
    }
    /// Add has no Clone impl, so a tree containing it cannot be cloned.
    pub fn clonable(&self) -> bool {
        !self.any(&|s| matches!(s, Spec::Add(..)))
    }
    /// Own window parameters of this node (not of children).
    pub fn own_windows(&self) -> Vec<usize> {
        match self {
            Spec::Alma(_, n) | Spec::AlmaCustom(_, n, ..) | Spec::BinaryEntropy(_, n) | Spec::CenterOfGravity(_, n) | Spec::Cti(_, n) | Spec::Cumulative(_, n)
            | Spec::CyberCycle(_, n) | Spec::Eft(_, _, n) | Spec::Ema(_, n) | Spec::EmaAlpha(_, n, _) | Spec::HlNormalizer(_, n) | Spec::LaguerreRsi(_, n)
            | Spec::Max(_, n) | Spec::Min(_, n) | Spec::MyRsi(_, n) | Spec::Net(_, n) | Spec::Pfe(_, _, n) | Spec::ReFlex(_, n) | Spec::Roc(_, n) | Spec::Rsi(_, n)
            | Spec::Sma(_, n) | Spec::SuperSmoother(_, n) | Spec::TrendFlex(_, n) | Spec::Vst(_, n) | Spec::Vsct(_, n) | Spec::WelfordOnline(_, n) => vec![*n],
            Spec::Roofing(_, n, m) => vec![*n, *m],
            _ => vec![],
        }
    }
    /// Sum of all window parameters in the tree.
    pub fn sum_windows(&self) -> usize {
        self.own_windows().iter().sum::<usize>() + self.children().iter().map(|c| c.sum_windows()).sum::<usize>()
    }
    pub fn max_window(&self) -> usize {
        self.own_windows().into_iter().chain(self.children().iter().map(|c| c.max_window())).max().unwrap_or(0)
    }
    pub fn depth(&self) -> usize {
        1 + self.children().iter().map(|c| c.depth()).max().unwrap_or(0)
    }
    /// Compact human-readable form, e.g. `Sma(Ema(Echo,3),5)`.
    pub fn show(&self) -> String {
        fn b(s: &Spec) -> String { s.show() }
        match self {
            Spec::Echo => "Echo".into(),
            Spec::Constant(v) => format!("Constant({v})"),
            Spec::Tanh(a) => format!("Tanh({})", b(a)),
            Spec::Gte(a, v) => format!("GTE({},{v})", b(a)),
            Spec::Lte(a, v) => format!("LTE({},{v})", b(a)),
            Spec::Add(a, x) => format!("Add({},{})", b(a), b(x)),
            Spec::Subtract(a, x) => format!("Subtract({},{})", b(a), b(x)),
            Spec::Multiply(a, x) => format!("Multiply({},{})", b(a), b(x)),
            Spec::Divide(a, x) => format!("Divide({},{})", b(a), b(x)),
            Spec::Drawdown(a) => format!("Drawdown({})", b(a)),
            Spec::LnReturn(a) => format!("LnReturn({})", b(a)),
            Spec::WelfordRolling(a) => format!("WelfordRolling({})", b(a)),
            Spec::AlmaCustom(a, n, s, o) => format!("AlmaCustom({},{n},{s},{o})", b(a)),
            Spec::EmaAlpha(a, n, al) => format!("EmaAlpha({},{n},{al})", b(a)),
            Spec::LaguerreFilter(a, g) => format!("LaguerreFilter({},{g})", b(a)),
            Spec::Eft(a, m, n) => format!("EFT({},{},{n})", b(a), b(m)),
            Spec::Pfe(a, m, n) => format!("PFE({},{},{n})", b(a), b(m)),
            Spec::Roofing(a, n, m) => format!("RoofingFilter({},{n},{m})", b(a)),
            other => format!("{}({},{})", other.name(), b(other.children()[0]), other.own_windows()[0]),
        }
    }
}

// ---------------------------------------------------------------------------------------------
// Catalogue enumeration and domains

fn bx(s: &Spec) -> Box<Spec> { Box::new(s.clone()) }
pub fn echo() -> Box<Spec> { Box::new(Spec::Echo) }
/// averaging moving averages admissible inside EFT / PFE
pub fn ma_specs(m: usize) -> Vec<Spec> {
    vec![Spec::Sma(echo(), m), Spec::Ema(echo(), m), Spec::Alma(echo(), m)]
}
/// Every unary view over `inner` with window n, with one default choice of the secondary parameters.
pub fn unary_over(inner: &Spec, n: usize) -> Vec<Spec> {
    let i = || bx(inner);
    vec![
        Spec::Tanh(i()), Spec::Gte(i(), 0.5), Spec::Lte(i(), 100.0), Spec::Drawdown(i()), Spec::LnReturn(i()), Spec::WelfordRolling(i()),
        Spec::Alma(i(), n), Spec::AlmaCustom(i(), n, 4.0, 0.5), Spec::BinaryEntropy(i(), n), Spec::CenterOfGravity(i(), n), Spec::Cti(i(), n),
        Spec::Cumulative(i(), n), Spec::CyberCycle(i(), n), Spec::Eft(i(), Box::new(Spec::Ema(echo(), 3)), n), Spec::Ema(i(), n), Spec::EmaAlpha(i(), n, 1.0),
        Spec::HlNormalizer(i(), n), Spec::LaguerreFilter(i(), 0.6), Spec::LaguerreRsi(i(), n), Spec::Max(i(), n), Spec::Min(i(), n), Spec::MyRsi(i(), n),
        Spec::Net(i(), n), Spec::Pfe(i(), Box::new(Spec::Ema(echo(), 2)), n), Spec::ReFlex(i(), n), Spec::Roc(i(), n), Spec::Roofing(i(), n, 3), Spec::Rsi(i(), n),
        Spec::Sma(i(), n), Spec::SuperSmoother(i(), n), Spec::TrendFlex(i(), n), Spec::Vst(i(), n), Spec::Vsct(i(), n), Spec::WelfordOnline(i(), n),
    ]
}
/// Every unary view over Echo with window n and the full secondary-parameter grid (C15 enumeration).
pub fn unary_grid(n: usize) -> Vec<Spec> {
    let mut v = vec![];
    for s in unary_over(&Spec::Echo, n) {
        match &s {
            Spec::Gte(..) | Spec::Lte(..) => {
                for c in [-1.0, 0.0, 0.5, 100.0] {
                    v.push(if matches!(s, Spec::Gte(..)) { Spec::Gte(echo(), c) } else { Spec::Lte(echo(), c) });
                }
            }
            Spec::AlmaCustom(..) => {
                for (sg, of) in [(0.5, 0.0), (4.0, 0.5), (12.0, 1.0), (6.0, 0.85), (1.0, 0.25)] {
                    v.push(Spec::AlmaCustom(echo(), n, sg, of));
                }
            }
            Spec::EmaAlpha(..) => {
                for al in [0.25, 1.0, 2.0, (n + 1) as f64] {
                    v.push(Spec::EmaAlpha(echo(), n, al));
                }
            }
            Spec::LaguerreFilter(..) => {
                for g in [0.0, 0.1, 0.5, 0.8, 0.99] {
                    v.push(Spec::LaguerreFilter(echo(), g));
                }
            }
            Spec::Roofing(..) => {
                for m in [1usize, 2, 3, 10, 48] {
                    v.push(Spec::Roofing(echo(), n, m));
                }
            }
            Spec::Eft(..) => {
                for ma in ma_specs(1).into_iter().chain(ma_specs(3)).chain(ma_specs(9)) {
                    v.push(Spec::Eft(echo(), Box::new(ma), n));
                }
            }
            Spec::Pfe(..) => {
                for ma in ma_specs(1).into_iter().chain(ma_specs(2)).chain(ma_specs(9)) {
                    v.push(Spec::Pfe(echo(), Box::new(ma), n));
                }
            }
            _ => v.push(s),
        }
    }
    v
}
pub fn binary_over(a: &Spec, b: &Spec) -> Vec<Spec> {
    vec![Spec::Add(bx(a), bx(b)), Spec::Subtract(bx(a), bx(b)), Spec::Multiply(bx(a), bx(b)), Spec::Divide(bx(a), bx(b))]
}
impl Spec {
    /// Output is > 0 whenever the raw input is > 0 (so a positive-domain outer view may sit on top).
    pub fn positivity_preserving(&self) -> bool {
        match self {
            Spec::Echo => true,
            Spec::Constant(c) => *c > 0.0,
            Spec::Gte(a, c) => *c > 0.0 || a.positivity_preserving(),
            Spec::Sma(a, _) | Spec::Ema(a, _) | Spec::Alma(a, _) | Spec::AlmaCustom(a, ..) | Spec::Min(a, _) | Spec::Max(a, _) | Spec::Cumulative(a, _) => a.positivity_preserving(),
            Spec::EmaAlpha(a, n, al) => *al > 0.0 && *al <= (*n as f64 + 1.0) && a.positivity_preserving(),
            Spec::Add(a, b) | Spec::Multiply(a, b) => a.positivity_preserving() && b.positivity_preserving(),
            _ => false,
        }
    }
    /// The tree is inside the documented input domain when fed positive raw input:
    /// Drawdown / LnReturn only over positive streams, Divide only by a non-zero divisor.
    pub fn domain_ok_positive_input(&self) -> bool {
        let here = match self {
            Spec::Drawdown(a) | Spec::LnReturn(a) => a.positivity_preserving(),
            Spec::Divide(_, b) => b.positivity_preserving() || matches!(**b, Spec::Constant(c) if c != 0.0),
            _ => true,
        };
        here && self.children().iter().all(|c| c.domain_ok_positive_input())
    }
    /// The tree is inside the domain for signed raw input.
    pub fn domain_ok_signed_input(&self) -> bool {
        let here = match self {
            Spec::Drawdown(a) | Spec::LnReturn(a) => matches!(**a, Spec::Constant(c) if c > 0.0) || matches!(**a, Spec::Gte(_, c) if c > 0.0),
            Spec::Divide(_, b) => matches!(**b, Spec::Constant(c) if c != 0.0) || matches!(**b, Spec::Gte(_, c) if c > 0.0),
            _ => true,
        };
        here && self.children().iter().all(|c| c.domain_ok_signed_input())
    }
    pub fn needs_positive_input(&self) -> bool {
        !self.domain_ok_signed_input()
    }
}

/// replace the Echo leaf of a single-window view by `inner`
pub fn rebase(s: &Spec, inner: &Spec) -> Spec {
    let mut v = serde_json::to_value(s).expect("spec to json");
    fn walk(v: &mut serde_json::Value, inner: &serde_json::Value) {
        match v {
            serde_json::Value::String(x) if x == "Echo" => *v = inner.clone(),
            serde_json::Value::Array(a) => a.iter_mut().for_each(|x| walk(x, inner)),
            serde_json::Value::Object(o) => o.values_mut().for_each(|x| walk(x, inner)),
            _ => {}
        }
    }
    walk(&mut v, &serde_json::to_value(inner).expect("spec to json"));
    serde_json::from_value(v).expect("json to spec")
}

