//! vcheck <Cxx> [--tier quick|thorough] [--seed N] [--only <clause glob>]   run a property
//! vcheck replay <file>                                                      re-run one saved case
//! vcheck child <Cxx> ...                                                    (internal) run this binary's profile clauses, JSON on stdout
use sfverif::core::Tier;
use sfverif::runner::{self, Opts};
use std::path::PathBuf;

#[global_allocator]
static GLOBAL: sfverif::alloc::CountingAlloc = sfverif::alloc::CountingAlloc;

fn main() {
    runner::install_panic_hook();
    let args: Vec<String> = std::env::args().skip(1).collect();
    if args.is_empty() {
        eprintln!("usage: vcheck <Cxx>|replay <file>|list [--tier quick|thorough] [--seed N] [--only glob]");
        std::process::exit(2);
    }
    let mut tier = match std::env::var("VERIF_TIER").ok().as_deref() {
        Some("thorough") => Tier::Thorough,
        _ => Tier::Quick,
    };
    let mut tier_explicit = false;
    let mut seed: u64 = std::env::var("VERIF_SEED").ok().and_then(|s| s.trim().parse::<i64>().ok()).map(|v| v as u64).unwrap_or(20261002);
    let mut verif_dir = PathBuf::from(std::env::var("VERIF_DIR").unwrap_or_else(|_| "/verif".into()));
    let mut only = None;
    let mut pos: Vec<String> = vec![];
    let mut i = 0;
    while i < args.len() {
        match args[i].as_str() {
            "--tier" => {
                i += 1;
                tier = if args.get(i).map(|s| s.as_str()) == Some("thorough") { Tier::Thorough } else { Tier::Quick };
                tier_explicit = true;
            }
            "--seed" => {
                i += 1;
                seed = args.get(i).and_then(|s| s.parse::<i64>().ok()).map(|v| v as u64).unwrap_or(seed);
            }
            "--verif-dir" => {
                i += 1;
                verif_dir = PathBuf::from(args.get(i).cloned().unwrap_or_default());
            }
            "--only" => {
                i += 1;
                only = args.get(i).cloned();
            }
            other => pos.push(other.to_string()),
        }
        i += 1;
    }
    let _ = tier_explicit;
    let threads = std::env::var("VERIF_THREADS").ok().and_then(|s| s.parse().ok()).unwrap_or_else(|| std::thread::available_parallelism().map(|n| n.get()).unwrap_or(8));
    let relassert_bin = std::env::var("VCHECK_RELASSERT_BIN").ok().map(PathBuf::from).or_else(|| {
        let p = verif_dir.join("harness/target/relassert/vcheck");
        if p.exists() { Some(p) } else { None }
    });
    let opts = Opts { verif_dir, tier, seed, threads, relassert_bin, only };
    // watchdog: a hang is inconclusive (exit 2), never a violation
    let limit = std::env::var("VERIF_TIMEOUT_S").ok().and_then(|s| s.parse::<u64>().ok()).unwrap_or(match tier {
        Tier::Quick => 1500,
        Tier::Thorough => 6 * 3600,
    });
    std::thread::spawn(move || {
        std::thread::sleep(std::time::Duration::from_secs(limit));
        eprintln!("INCONCLUSIVE: watchdog after {limit}s");
        std::process::exit(2);
    });
    let code = match pos[0].as_str() {
        "replay" => {
            let Some(f) = pos.get(1) else {
                eprintln!("usage: vcheck replay <file>");
                std::process::exit(2);
            };
            runner::replay(&PathBuf::from(f), &opts)
        }
        "fuzz-replay" => {
            // vcheck fuzz-replay <Cxx> <artifact>: decode a libFuzzer artifact into the JSON replay form of the matching clause and re-execute it
            let (Some(prop), Some(art)) = (pos.get(1), pos.get(2)) else {
                eprintln!("usage: vcheck fuzz-replay <Cxx> <artifact>");
                std::process::exit(2);
            };
            if sfverif::fuzzdec::SINGLE_PROPS.contains(&prop.as_str()) {
                // fz_single: the artifact names its own clause
                let bytes = std::fs::read(art).unwrap_or_default();
                let Some((clause, case)) = sfverif::fuzzdec::decode_single(prop, &bytes) else {
                    eprintln!("HARNESS-ERROR: artifact does not decode to a case");
                    std::process::exit(2);
                };
                let rec = runner::FailureRec { clause, sig: "fuzz".into(), msg: format!("decoded from libFuzzer artifact {art}"), case };
                let path = runner::write_replay(&opts.verif_dir, prop, &rec);
                println!("fuzz-replay: case written to {}", path.display());
                std::process::exit(runner::replay(&path, &opts));
            }
            let clause = match prop.as_str() {
                "C15" => "C15/chains/relassert",
                "C08" => "C08/chains/generated",
                "C01" => "C01/triples/generated",
                "C17" => "C17/chains",
                _ => {
                    eprintln!("no fuzz target serves {prop}");
                    std::process::exit(2);
                }
            };
            let bytes = std::fs::read(art).unwrap_or_default();
            let Some(case) = sfverif::fuzzdec::decode(&bytes) else {
                eprintln!("HARNESS-ERROR: artifact does not decode to a case");
                std::process::exit(2);
            };
            let rec = runner::FailureRec { clause: clause.to_string(), sig: "fuzz".into(), msg: format!("decoded from libFuzzer artifact {art}"), case };
            let path = runner::write_replay(&opts.verif_dir, prop, &rec);
            println!("fuzz-replay: case written to {}", path.display());
            runner::replay(&path, &opts)
        }
        "selftest-q" => match sfverif::q::selftest(2_000_000) {
            Ok(n) => {
                println!("exact scalar self-test: {n} operations agree with BigRational arithmetic");
                0
            }
            Err(e) => {
                eprintln!("HARNESS-ERROR: exact scalar self-test failed: {e}");
                2
            }
        },
        "list" => {
            for p in sfverif::props::PROPERTIES {
                for c in sfverif::props::clauses(p) {
                    println!("{}\t{}", c.id, c.profile.unwrap_or("release"));
                }
            }
            0
        }
        "child" => {
            let Some(p) = pos.get(1).and_then(|p| sfverif::props::PROPERTIES.iter().find(|q| **q == p)) else {
                eprintln!("unknown property");
                std::process::exit(2);
            };
            let kf = runner::KnownFindings::load(&opts.verif_dir.join("KNOWN_FINDINGS.txt"));
            let clauses: Vec<_> = sfverif::props::clauses(p).into_iter().filter(|c| opts.only.as_ref().map_or(true, |o| runner::glob_match(o, &c.id) || c.id.contains(o.as_str()))).collect();
            let res = runner::run_clauses(&clauses, opts.tier, opts.seed, &kf, opts.threads);
            println!("{}", serde_json::to_string(&res).unwrap());
            0
        }
        p => {
            let Some(prop) = sfverif::props::PROPERTIES.iter().find(|q| **q == p) else {
                eprintln!("unknown property {p}");
                std::process::exit(2);
            };
            let clauses = sfverif::props::clauses(prop);
            if clauses.is_empty() {
                eprintln!("property {p} has no clauses in this build");
                std::process::exit(2);
            }
            runner::run_property(prop, clauses, &opts)
        }
    };
    std::process::exit(code);
}
