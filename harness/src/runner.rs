//! Clause runner: seeded proptest search (or complete enumeration) per clause, sharded over all cores,
//! known-finding matching, replay files, evidence files, child process for the `relassert` profile.
use crate::core::*;
use crate::q;
use proptest::test_runner::{Config, RngSeed, TestCaseError, TestError, TestRunner};
use serde::{Deserialize, Serialize};
use serde_json::json;
use std::cell::RefCell;
use std::collections::{BTreeMap, HashSet};
use std::hash::{Hash, Hasher};
use std::panic::{catch_unwind, AssertUnwindSafe};
use std::path::{Path, PathBuf};
use std::sync::atomic::{AtomicUsize, Ordering};
use std::sync::Mutex;
use std::time::Instant;

// ------------------------------------------------------------------------------------------------
// panic capture

thread_local! {
    static LAST_PANIC: RefCell<Option<String>> = const { RefCell::new(None) };
}
pub fn install_panic_hook() {
    std::panic::set_hook(Box::new(|info| {
        let msg = if let Some(s) = info.payload().downcast_ref::<&str>() {
            s.to_string()
        } else if let Some(s) = info.payload().downcast_ref::<String>() {
            s.clone()
        } else {
            "<non-string panic payload>".to_string()
        };
        let loc = info.location().map(|l| format!("{}:{}", l.file(), l.line())).unwrap_or_default();
        LAST_PANIC.with(|p| *p.borrow_mut() = Some(format!("{msg} @ {loc}")));
    }));
}
pub fn take_panic() -> String {
    LAST_PANIC.with(|p| p.borrow_mut().take()).unwrap_or_else(|| "<panic without message>".into())
}
/// Run `f`, turning an unwind into Err(message @ location). A panic that says "the exact scalar does not model this"
/// is not a property of /repo: it is re-raised so that the runner reports a harness error (exit 2), never a violation.
pub fn guarded<R>(f: impl FnOnce() -> R) -> Result<R, String> {
    match guarded_raw(f) {
        Err(m) if m.contains(q::Q_UNIMPL_MARKER) || m.contains("stale Q handle") => panic!("{m}"),
        other => other,
    }
}
fn guarded_raw<R>(f: impl FnOnce() -> R) -> Result<R, String> {
    match catch_unwind(AssertUnwindSafe(f)) {
        Ok(r) => Ok(r),
        Err(_) => Err(take_panic()),
    }
}

// ------------------------------------------------------------------------------------------------
// known findings

#[derive(Clone, Debug)]
pub struct Finding {
    pub property: String,
    pub sig_glob: String,
    pub probe: Option<String>,
    pub text: String,
}
#[derive(Clone, Debug, Default)]
pub struct KnownFindings {
    pub findings: Vec<Finding>,
    pub fixed: Vec<String>,
}
pub fn glob_match(pat: &str, s: &str) -> bool {
    // '*' matches any (possibly empty) substring; everything else literal
    let parts: Vec<&str> = pat.split('*').collect();
    if parts.len() == 1 {
        return pat == s;
    }
    let mut pos = 0usize;
    for (i, part) in parts.iter().enumerate() {
        if part.is_empty() {
            continue;
        }
        if i == 0 {
            if !s.starts_with(part) {
                return false;
            }
            pos = part.len();
        } else if i == parts.len() - 1 {
            return s.len() >= pos + part.len() && s[pos..].ends_with(part);
        } else {
            match s[pos..].find(part) {
                Some(k) => pos += k + part.len(),
                None => return false,
            }
        }
    }
    true
}
impl KnownFindings {
    pub fn load(path: &Path) -> KnownFindings {
        let mut kf = KnownFindings::default();
        let Ok(text) = std::fs::read_to_string(path) else { return kf };
        for line in text.lines() {
            let line = line.trim();
            if line.starts_with('#') || line.is_empty() {
                continue;
            }
            if let Some(rest) = line.strip_prefix("fixed:") {
                kf.fixed.push(rest.trim().to_string());
            } else if let Some(rest) = line.strip_prefix("finding:") {
                let (head, text) = rest.split_once("::").unwrap_or((rest, ""));
                let mut f = Finding { property: String::new(), sig_glob: String::new(), probe: None, text: text.trim().to_string() };
                for tok in head.split_whitespace() {
                    if let Some(v) = tok.strip_prefix("property=") {
                        f.property = v.to_string();
                    } else if let Some(v) = tok.strip_prefix("sig=") {
                        f.sig_glob = v.to_string();
                    } else if let Some(v) = tok.strip_prefix("probe=") {
                        f.probe = Some(v.to_string());
                    }
                }
                if !f.property.is_empty() && !f.sig_glob.is_empty() {
                    kf.findings.push(f);
                }
            }
        }
        kf
    }
    pub fn matching(&self, property: &str, sig: &str) -> Option<usize> {
        self.findings.iter().position(|f| f.property == property && glob_match(&f.sig_glob, sig))
    }
}

// ------------------------------------------------------------------------------------------------
// results

#[derive(Clone, Debug, Serialize, Deserialize, Default)]
pub struct FailureRec {
    pub clause: String,
    pub sig: String,
    pub msg: String,
    pub case: Case,
}
#[derive(Clone, Debug, Serialize, Deserialize, Default)]
pub struct ClauseResult {
    pub id: String,
    pub rule: String,
    pub profile: String,
    pub exhaustive: bool,
    pub evaluations: u64,
    pub nontrivial: u64,
    pub distinct_nontrivial: u64,
    pub discards: u64,
    pub discard_reasons: BTreeMap<String, u64>,
    pub labels: BTreeMap<String, u64>,
    pub q_roundings: u64,
    /// finding index -> (count, example message)
    pub known_hits: BTreeMap<usize, (u64, String)>,
    pub failure: Option<FailureRec>,
    /// every unlisted failure signature seen (enumerated clauses continue after the first)
    pub failure_sigs: BTreeMap<String, (u64, FailureRec)>,
    pub harness_errors: Vec<String>,
    pub samples: Vec<serde_json::Value>,
    #[serde(skip)]
    hashes: HashSet<u64>,
}

fn fnv(parts: &[&[u8]]) -> u64 {
    let mut h: u64 = 0xcbf29ce484222325;
    for p in parts {
        for b in *p {
            h ^= *b as u64;
            h = h.wrapping_mul(0x100000001b3);
        }
        h ^= 0xff;
        h = h.wrapping_mul(0x100000001b3);
    }
    h
}
fn case_hash(c: &Case) -> u64 {
    let s = serde_json::to_string(c).unwrap_or_default();
    let mut h = std::collections::hash_map::DefaultHasher::new();
    s.hash(&mut h);
    h.finish()
}
/// full JSON of a case (fuzz reports)
pub fn case_json(c: &Case) -> String {
    serde_json::to_string(c).unwrap_or_default()
}
/// JSON of a case with long streams abbreviated (samples in evidence).
pub fn case_sample(c: &Case) -> serde_json::Value {
    fn rats(v: &[Rat]) -> serde_json::Value {
        let show = |r: &Rat| if r.1 == 1 { format!("{}", r.0) } else { format!("{}/{}", r.0, r.1) };
        if v.len() <= 48 {
            json!(v.iter().map(show).collect::<Vec<_>>())
        } else {
            json!({"len": v.len(), "head": v[..24].iter().map(show).collect::<Vec<_>>(), "tail": v[v.len()-12..].iter().map(show).collect::<Vec<_>>()})
        }
    }
    let mut m = serde_json::Map::new();
    if let Some(s) = &c.spec {
        m.insert("view".into(), json!(s.show()));
    }
    if let Some(s) = &c.spec2 {
        m.insert("view2".into(), json!(s.show()));
    }
    if !c.xs.is_empty() {
        m.insert("xs".into(), rats(&c.xs));
    }
    if !c.ys.is_empty() {
        m.insert("ys".into(), rats(&c.ys));
    }
    if !c.zs.is_empty() {
        m.insert("zs".into(), rats(&c.zs));
    }
    m.insert("a".into(), json!(format!("{}/{}", c.a.0, c.a.1)));
    m.insert("b".into(), json!(format!("{}/{}", c.b.0, c.b.1)));
    if !c.ints.is_empty() {
        m.insert("ints".into(), json!(c.ints));
    }
    serde_json::Value::Object(m)
}

struct ShardOut {
    clause: usize,
    res: ClauseResult,
}

enum Work {
    Gen { clause: usize, shard: u32, cases: u32 },
    Enum { clause: usize, lo: usize, hi: usize },
}

/// Evaluate one case under catch_unwind. Panics inside an oracle are failures of the clause ("panic"),
/// except the exact scalar's "not modelled" marker which is a harness error.
fn eval(clause: &Clause, case: &Case) -> Result<Verdict, String> {
    q::arena_reset();
    match guarded_raw(|| (clause.check)(case)) {
        Ok(v) => Ok(v),
        Err(msg) => {
            if msg.contains(q::Q_UNIMPL_MARKER) || msg.contains("stale Q handle") {
                Err(format!("harness: {msg}"))
            } else {
                Ok(Verdict::fail(format!("{}|panic", clause.id), format!("panic inside the check: {msg}")))
            }
        }
    }
}

fn absorb(res: &mut ClauseResult, clause: &Clause, kf: &KnownFindings, case: &Case, v: Result<Verdict, String>, counting: bool) -> Result<(), (String, String)> {
    // returns Err((sig,msg)) for an unlisted failure
    match v {
        Err(h) => {
            if counting && res.harness_errors.len() < 5 {
                res.harness_errors.push(h);
            }
            Ok(())
        }
        Ok(Verdict::Pass { nontrivial, labels }) => {
            if counting {
                res.evaluations += 1;
                res.q_roundings += q::arena_rounded();
                for l in labels {
                    *res.labels.entry(l).or_insert(0) += 1;
                }
                if nontrivial {
                    res.nontrivial += 1;
                    if res.hashes.insert(case_hash(case)) && res.samples.len() < 2 {
                        res.samples.push(case_sample(case));
                    }
                }
            }
            Ok(())
        }
        Ok(Verdict::Discard(why)) => {
            if counting {
                res.evaluations += 1;
                res.discards += 1;
                *res.discard_reasons.entry(why).or_insert(0) += 1;
            }
            Ok(())
        }
        Ok(Verdict::Fail { sig, msg }) => {
            if let Some(i) = kf.matching(clause.property, &sig) {
                if counting {
                    res.evaluations += 1;
                    let e = res.known_hits.entry(i).or_insert((0, String::new()));
                    e.0 += 1;
                    if e.1.is_empty() {
                        e.1 = format!("{} :: {} :: case {}", sig, msg, serde_json::to_string(&case_sample(case)).unwrap_or_default());
                    }
                }
                Ok(())
            } else {
                if counting {
                    res.evaluations += 1;
                    let e = res.failure_sigs.entry(sig.clone()).or_insert_with(|| (0, FailureRec { clause: clause.id.clone(), sig: sig.clone(), msg: msg.clone(), case: case.clone() }));
                    e.0 += 1;
                }
                Err((sig, msg))
            }
        }
    }
}

fn run_work(clauses: &[Clause], enums: &[Option<Vec<Case>>], failed: &[std::sync::atomic::AtomicBool], w: &Work, tier: Tier, seed: u64, kf: &KnownFindings) -> ShardOut {
    match *w {
        Work::Gen { clause: ci, shard, cases } => {
            let clause = &clauses[ci];
            let mut res = ClauseResult { id: clause.id.clone(), ..Default::default() };
            if failed[ci].load(Ordering::SeqCst) {
                // another shard of this clause has already found an unlisted failure: one shrunk counterexample per clause is enough
                return ShardOut { clause: ci, res };
            }
            let Source::Generated { strategy, .. } = &clause.source else { unreachable!() };
            let strat = strategy(tier);
            let s = fnv(&[&seed.to_le_bytes(), clause.id.as_bytes(), &shard.to_le_bytes()]);
            let mut cfg = Config::default();
            cfg.cases = cases;
            cfg.failure_persistence = None;
            cfg.rng_seed = RngSeed::Fixed(s);
            cfg.max_shrink_iters = 20_000;
            cfg.max_shrink_time = tier.pick(45_000, 300_000);
            cfg.max_global_rejects = 1 << 20;
            cfg.max_local_rejects = 1 << 20;
            cfg.verbose = 0;
            let mut runner = TestRunner::new(cfg);
            let counting = std::cell::Cell::new(true);
            let res_cell = RefCell::new(&mut res);
            let out = runner.run(&strat, |case| {
                if counting.get() && failed[ci].load(Ordering::SeqCst) {
                    return Ok(()); // a sibling shard is already shrinking a failure of this clause
                }
                let v = eval(clause, &case);
                let mut r = res_cell.borrow_mut();
                match absorb(&mut r, clause, kf, &case, v, counting.get()) {
                    Ok(()) => Ok(()),
                    Err((sig, msg)) => {
                        failed[ci].store(true, Ordering::SeqCst);
                        counting.set(false); // shrinking re-executions are not counted
                        Err(TestCaseError::fail(format!("{sig} :: {msg}")))
                    }
                }
            });
            match out {
                Ok(()) => {}
                Err(TestError::Fail(_reason, case)) => {
                    // re-evaluate the shrunk case to obtain its final signature and message
                    let (sig, msg) = match eval(clause, &case) {
                        Ok(Verdict::Fail { sig, msg }) => (sig, msg),
                        other => (format!("{}|unstable", clause.id), format!("shrunk case no longer fails deterministically: {:?}", other.map(|_| ()))),
                    };
                    res.failure = Some(FailureRec { clause: clause.id.clone(), sig, msg, case });
                }
                Err(TestError::Abort(reason)) => res.harness_errors.push(format!("proptest aborted: {reason}")),
            }
            ShardOut { clause: ci, res }
        }
        Work::Enum { clause: ci, lo, hi } => {
            let clause = &clauses[ci];
            let mut res = ClauseResult { id: clause.id.clone(), ..Default::default() };
            let all = enums[ci].as_ref().expect("enumeration cached");
            for case in &all[lo..hi.min(all.len())] {
                let v = eval(clause, case);
                if let Err((sig, msg)) = absorb(&mut res, clause, kf, case, v, true) {
                    if res.failure.is_none() {
                        res.failure = Some(FailureRec { clause: clause.id.clone(), sig, msg, case: case.clone() });
                    }
                }
            }
            ShardOut { clause: ci, res }
        }
    }
}

fn merge(into: &mut ClauseResult, from: ClauseResult) {
    into.evaluations += from.evaluations;
    into.nontrivial += from.nontrivial;
    into.discards += from.discards;
    into.q_roundings += from.q_roundings;
    for (k, v) in from.discard_reasons {
        *into.discard_reasons.entry(k).or_insert(0) += v;
    }
    for (k, v) in from.labels {
        *into.labels.entry(k).or_insert(0) += v;
    }
    for (k, v) in from.failure_sigs {
        let n = v.0;
        let e = into.failure_sigs.entry(k).or_insert((0, v.1));
        e.0 += n;
    }
    for (k, v) in from.known_hits {
        let e = into.known_hits.entry(k).or_insert((0, String::new()));
        e.0 += v.0;
        if e.1.is_empty() {
            e.1 = v.1;
        }
    }
    for h in from.hashes {
        into.hashes.insert(h);
    }
    into.distinct_nontrivial = into.hashes.len() as u64;
    for s in from.samples {
        if into.samples.len() < 2 {
            into.samples.push(s);
        }
    }
    into.harness_errors.extend(from.harness_errors);
    into.harness_errors.truncate(5);
    if let Some(f) = from.failure {
        let better = match &into.failure {
            None => true,
            Some(cur) => serde_json::to_string(&f.case).map(|s| s.len()).unwrap_or(usize::MAX) < serde_json::to_string(&cur.case).map(|s| s.len()).unwrap_or(usize::MAX),
        };
        if better {
            into.failure = Some(f);
        }
    }
}

pub fn current_profile() -> &'static str {
    if cfg!(debug_assertions) {
        "relassert"
    } else {
        "release"
    }
}

/// Run the given clauses (only those whose profile matches this binary), in parallel.
pub fn run_clauses(clauses: &[Clause], tier: Tier, seed: u64, kf: &KnownFindings, threads: usize) -> Vec<ClauseResult> {
    let me = current_profile();
    let mut work: Vec<Work> = vec![];
    let mut results: Vec<ClauseResult> = clauses
        .iter()
        .map(|c| ClauseResult { id: c.id.clone(), rule: c.rule.clone(), profile: c.profile.unwrap_or("release").to_string(), exhaustive: matches!(c.source, Source::Enumerated { .. }), ..Default::default() })
        .collect();
    let mut enums: Vec<Option<Vec<Case>>> = clauses.iter().map(|_| None).collect();
    for (i, c) in clauses.iter().enumerate() {
        if c.profile.unwrap_or("release") != me {
            continue;
        }
        match &c.source {
            Source::Generated { quick, thorough, .. } => {
                let th = (*thorough / crate::props::thorough_div(c.property)).max(1);
                let total = tier.pick(quick.saturating_mul(crate::props::quick_scale(c.property)).min(th), th);
                let mut done = 0;
                let mut shard = 0;
                while done < total {
                    let n = c.shard.min(total - done);
                    work.push(Work::Gen { clause: i, shard, cases: n });
                    done += n;
                    shard += 1;
                }
            }
            Source::Enumerated { cases } => {
                let list = cases(tier);
                let n = list.len();
                enums[i] = Some(list);
                let mut lo = 0;
                while lo < n {
                    let hi = (lo + c.shard as usize).min(n);
                    work.push(Work::Enum { clause: i, lo, hi });
                    lo = hi;
                }
            }
        }
    }
    let next = AtomicUsize::new(0);
    let failed: Vec<std::sync::atomic::AtomicBool> = clauses.iter().map(|_| std::sync::atomic::AtomicBool::new(false)).collect();
    let outs: Mutex<Vec<ShardOut>> = Mutex::new(vec![]);
    std::thread::scope(|sc| {
        for _ in 0..threads.max(1) {
            sc.spawn(|| loop {
                let k = next.fetch_add(1, Ordering::SeqCst);
                if k >= work.len() {
                    break;
                }
                let o = run_work(clauses, &enums, &failed, &work[k], tier, seed, kf);
                outs.lock().unwrap().push(o);
            });
        }
    });
    let mut outs = outs.into_inner().unwrap();
    outs.sort_by_key(|o| o.clause);
    for o in outs {
        merge(&mut results[o.clause], o.res);
    }
    results.into_iter().zip(clauses.iter()).filter(|(_, c)| c.profile.unwrap_or("release") == me).map(|(r, _)| r).collect()
}

// ------------------------------------------------------------------------------------------------
// property-level driver

pub struct Opts {
    pub verif_dir: PathBuf,
    pub tier: Tier,
    pub seed: u64,
    pub threads: usize,
    pub relassert_bin: Option<PathBuf>,
    pub only: Option<String>,
}

pub fn replay_path(verif: &Path, f: &FailureRec) -> PathBuf {
    let h = fnv(&[serde_json::to_string(&f.case).unwrap_or_default().as_bytes(), f.sig.as_bytes()]);
    let clause = f.clause.replace('/', "_");
    verif.join("replays").join(format!("{clause}-{:08x}.json", h as u32))
}

pub fn write_replay(verif: &Path, property: &str, f: &FailureRec) -> PathBuf {
    let p = replay_path(verif, f);
    let _ = std::fs::create_dir_all(p.parent().unwrap());
    let doc = json!({"property": property, "clause": f.clause, "sig": f.sig, "message": f.msg, "view": f.case.spec.as_ref().map(|s| s.show()), "case": f.case});
    let _ = std::fs::write(&p, serde_json::to_string_pretty(&doc).unwrap());
    p
}

/// Runs a property: own-profile clauses in-process, `relassert` clauses through the child binary.
pub fn run_property(property: &'static str, clauses: Vec<Clause>, opts: &Opts) -> i32 {
    let t0 = Instant::now();
    let kf = KnownFindings::load(&opts.verif_dir.join("KNOWN_FINDINGS.txt"));
    let clauses: Vec<Clause> = match &opts.only {
        Some(pat) => clauses.into_iter().filter(|c| glob_match(pat, &c.id) || c.id.contains(pat.as_str())).collect(),
        None => clauses,
    };
    let mut harness_errors: Vec<String> = vec![];
    // child for the other profile
    let needs_child = clauses.iter().any(|c| c.profile.unwrap_or("release") != current_profile());
    let child = if needs_child {
        match &opts.relassert_bin {
            Some(bin) if bin.exists() => {
                let mut cmd = std::process::Command::new(bin);
                cmd.arg("child").arg(property).arg("--tier").arg(opts.tier.name()).arg("--seed").arg(opts.seed.to_string()).arg("--verif-dir").arg(&opts.verif_dir);
                if let Some(o) = &opts.only {
                    cmd.arg("--only").arg(o);
                }
                cmd.stdout(std::process::Stdio::piped()).stderr(std::process::Stdio::inherit());
                match cmd.spawn() {
                    Ok(c) => Some(c),
                    Err(e) => {
                        harness_errors.push(format!("cannot start relassert binary: {e}"));
                        None
                    }
                }
            }
            _ => {
                harness_errors.push("relassert binary missing (run ./check.sh setup)".into());
                None
            }
        }
    } else {
        None
    };
    let mut results = run_clauses(&clauses, opts.tier, opts.seed, &kf, opts.threads);
    if let Some(child) = child {
        match child.wait_with_output() {
            Ok(out) => match serde_json::from_slice::<Vec<ClauseResult>>(&out.stdout) {
                Ok(mut r) => results.append(&mut r),
                Err(e) => harness_errors.push(format!("relassert child output unreadable ({e}); status {:?}", out.status)),
            },
            Err(e) => harness_errors.push(format!("relassert child failed: {e}")),
        }
    }
    // probes of listed findings: re-run the committed failing input; print KNOWN-FINDING if it still fails
    let mut known_lines: Vec<String> = vec![];
    let mut violations: Vec<(FailureRec, PathBuf)> = vec![];
    let mut known_seen: BTreeMap<usize, (u64, String)> = BTreeMap::new();
    for (i, f) in kf.findings.iter().enumerate() {
        if f.property != property {
            continue;
        }
        if let Some(p) = &f.probe {
            let path = opts.verif_dir.join(p);
            match load_replay(&path) {
                Ok((clause_id, case)) => {
                    if let Some(c) = clauses.iter().find(|c| c.id == clause_id) {
                        if c.profile.unwrap_or("release") == current_profile() {
                            match eval(c, &case) {
                                Ok(Verdict::Fail { sig, msg }) if glob_match(&f.sig_glob, &sig) => {
                                    known_seen.entry(i).or_insert((1, format!("{sig} :: {msg}")));
                                }
                                Ok(Verdict::Fail { sig, msg }) => {
                                    // fails differently from what is listed: an unlisted violation
                                    let fr = FailureRec { clause: c.id.clone(), sig, msg, case };
                                    let rp = write_replay(&opts.verif_dir, property, &fr);
                                    violations.push((fr, rp));
                                }
                                _ => {}
                            }
                        }
                    }
                }
                Err(e) => harness_errors.push(format!("probe {p}: {e}")),
            }
        }
    }
    for r in &results {
        for (i, (n, ex)) in &r.known_hits {
            let e = known_seen.entry(*i).or_insert((0, ex.clone()));
            e.0 += n;
        }
        harness_errors.extend(r.harness_errors.iter().map(|e| format!("{}: {e}", r.id)));
        if let Some(f) = &r.failure {
            let rp = write_replay(&opts.verif_dir, property, f);
            violations.push((f.clone(), rp));
        }
    }
    for (i, (n, ex)) in &known_seen {
        let f = &kf.findings[*i];
        let line = format!("KNOWN-FINDING: property={} {} [sig={} hits={}]", property, f.text, f.sig_glob, n);
        println!("{line}");
        known_lines.push(format!("{line} e.g. {ex}"));
    }
    for (f, rp) in &violations {
        println!("VIOLATION property={} replay={}", property, rp.display());
        println!("  clause={} sig={}\n  {}", f.clause, f.sig, f.msg);
    }
    for r in &results {
        if r.failure_sigs.len() > 1 {
            for (s, (n, ex)) in &r.failure_sigs {
                println!("  (also) clause={} unlisted failure signature {} x{} e.g. {}", r.id, s, n, ex.msg);
                if std::env::var("VERIF_DUMP_ALL").is_ok() {
                    let rp = write_replay(&opts.verif_dir, property, ex);
                    println!("         replay={}", rp.display());
                }
            }
        }
    }
    for e in &harness_errors {
        eprintln!("HARNESS-ERROR: {e}");
    }
    // evidence
    let evaluations: u64 = results.iter().map(|r| r.evaluations).sum();
    let distinct: u64 = results.iter().map(|r| r.distinct_nontrivial).sum();
    let mut samples: Vec<serde_json::Value> = vec![];
    for r in &results {
        for s in &r.samples {
            if samples.len() < 40 {
                samples.push(json!({"clause": r.id, "case": s}));
            }
        }
    }
    let mut starved: Vec<String> = vec![];
    let clause_table: Vec<serde_json::Value> = results
        .iter()
        .map(|r| {
            if r.evaluations > 0 && r.distinct_nontrivial == 0 {
                starved.push(r.id.clone());
            }
            json!({"id": r.id, "profile": r.profile, "exhaustive": r.exhaustive, "evaluations": r.evaluations, "nontrivial": r.nontrivial, "distinct_nontrivial": r.distinct_nontrivial,
                   "discards": r.discards, "discard_reasons": r.discard_reasons, "labels": r.labels, "q_roundings": r.q_roundings,
                   "known_finding_hits": r.known_hits.iter().map(|(i, (n, _))| json!({"finding": kf.findings[*i].sig_glob, "hits": n})).collect::<Vec<_>>(),
                   "violation": r.failure.as_ref().map(|f| json!({"sig": f.sig, "msg": f.msg})), "rule": r.rule})
        })
        .collect();
    for s in &starved {
        eprintln!("WARNING: clause {s} produced no non-trivial case (generator starved)");
    }
    let all_exh = !results.is_empty() && results.iter().all(|r| r.exhaustive);
    let rule = format!(
        "Each clause draws cases from its own proptest strategy (seed = fnv(VERIF_SEED, clause id, shard)) or enumerates a finite space completely (exhaustive=true in the clause table); \
         a case is non-trivial by the clause's own rule (clauses[].rule) and distinct by the hash of its full JSON encoding; distinct_nontrivial = sum over clauses of distinct non-trivial cases. \
         Property-level summary of rules: {}",
        crate::props::property_rule(property)
    );
    let ev = json!({
        "property_id": property,
        "tier": opts.tier.name(),
        "seed": opts.seed,
        "level": "exploration",
        "coverage": {
            "evaluations": evaluations,
            "distinct_nontrivial": distinct,
            "rule": rule,
            "samples": samples,
            "exhaustive": all_exh,
            "clauses": clause_table,
            "known_findings_reported": known_lines,
            "generator_starved_clauses": starved,
            "harness_errors": harness_errors,
            "fuzz_campaign": std::env::var("VERIF_FUZZ_NOTE").ok(),
        },
        "assumptions": crate::props::property_assumptions(property),
        "wall_s": t0.elapsed().as_secs_f64(),
        "violations": violations.len(),
    });
    // trials of seeded changes redirect the evidence (VERIF_EVIDENCE_DIR) so that /verif/evidence only ever holds runs on /repo itself
    let evdir = std::env::var("VERIF_EVIDENCE_DIR").map(PathBuf::from).unwrap_or_else(|_| opts.verif_dir.join("evidence"));
    let _ = std::fs::create_dir_all(&evdir);
    if opts.only.is_none() {
        if let Err(e) = std::fs::write(evdir.join(format!("{property}.json")), serde_json::to_string_pretty(&ev).unwrap()) {
            eprintln!("HARNESS-ERROR: cannot write evidence: {e}");
            return 2;
        }
    }
    eprintln!(
        "[{property}] tier={} seed={} clauses={} evaluations={} distinct_nontrivial={} known_findings={} violations={} wall={:.1}s",
        opts.tier.name(),
        opts.seed,
        results.len(),
        evaluations,
        distinct,
        known_seen.len(),
        violations.len(),
        t0.elapsed().as_secs_f64()
    );
    if !violations.is_empty() {
        1
    } else if !harness_errors.is_empty() {
        2
    } else {
        0
    }
}

pub fn load_replay(path: &Path) -> Result<(String, Case), String> {
    let text = std::fs::read_to_string(path).map_err(|e| format!("cannot read {}: {e}", path.display()))?;
    let v: serde_json::Value = serde_json::from_str(&text).map_err(|e| format!("bad JSON: {e}"))?;
    let clause = v.get("clause").and_then(|c| c.as_str()).ok_or("replay has no clause")?.to_string();
    let case: Case = serde_json::from_value(v.get("case").cloned().ok_or("replay has no case")?).map_err(|e| format!("bad case: {e}"))?;
    Ok((clause, case))
}

/// Re-execute exactly one saved case without proptest. Exit 1 + VIOLATION if it (still) fails and is not listed.
pub fn replay(path: &Path, opts: &Opts) -> i32 {
    let (clause_id, case) = match load_replay(path) {
        Ok(x) => x,
        Err(e) => {
            eprintln!("HARNESS-ERROR: {e}");
            return 2;
        }
    };
    let prop = clause_id.split('/').next().unwrap_or("").to_string();
    let Some(property) = crate::props::PROPERTIES.iter().find(|p| **p == prop) else {
        eprintln!("HARNESS-ERROR: unknown property in clause id {clause_id}");
        return 2;
    };
    let clauses = crate::props::clauses(property);
    let Some(c) = clauses.iter().find(|c| c.id == clause_id) else {
        eprintln!("HARNESS-ERROR: unknown clause {clause_id}");
        return 2;
    };
    // VCHECK_ANY_PROFILE=1: run the clause in this binary whatever profile it was written for (check.sh uses it to look for a
    // fuzz-target failure - the targets are built with debug assertions - under the relassert build of the harness)
    if c.profile.unwrap_or("release") != current_profile() && std::env::var("VCHECK_ANY_PROFILE").is_err() {
        if let Some(bin) = &opts.relassert_bin {
            let st = std::process::Command::new(bin).arg("replay").arg(path).arg("--verif-dir").arg(&opts.verif_dir).status();
            return st.ok().and_then(|s| s.code()).unwrap_or(2);
        }
        eprintln!("HARNESS-ERROR: clause needs the relassert binary");
        return 2;
    }
    let kf = KnownFindings::load(&opts.verif_dir.join("KNOWN_FINDINGS.txt"));
    match eval(c, &case) {
        Ok(Verdict::Fail { sig, msg }) => {
            if let Some(i) = kf.matching(property, &sig) {
                println!("KNOWN-FINDING: property={} {} [sig={}]", property, kf.findings[i].text, sig);
                println!("  {msg}");
                0
            } else {
                println!("VIOLATION property={} replay={}", property, path.display());
                println!("  clause={clause_id} sig={sig}\n  {msg}");
                1
            }
        }
        Ok(Verdict::Pass { nontrivial, labels }) => {
            println!("replay: oracle holds (nontrivial={nontrivial}, labels={labels:?})");
            0
        }
        Ok(Verdict::Discard(why)) => {
            println!("replay: case is outside the clause's domain ({why})");
            0
        }
        Err(e) => {
            eprintln!("HARNESS-ERROR: {e}");
            2
        }
    }
}
