//! sfverif: property-based-testing / fuzzing machinery deciding the listed properties C01..C18 of the
//! `sliding_features` crate (path dependency on /repo, so every build sees /repo's working tree).
pub mod alloc;
pub mod catalog;
pub mod core;
pub mod exec;
pub mod fuzzdec;
pub mod gen;
pub mod props;
pub mod q;
pub mod refs;
pub mod refs_ehlers;
pub mod runner;

/// used by the fuzz targets: is this failure signature listed in /verif/KNOWN_FINDINGS.txt (loaded once)?
pub fn fuzzdec_known(sig: &str) -> bool {
    use std::sync::OnceLock;
    static KF: OnceLock<runner::KnownFindings> = OnceLock::new();
    let kf = KF.get_or_init(|| {
        let dir = std::env::var("VERIF_DIR").unwrap_or_else(|_| "/verif".into());
        runner::KnownFindings::load(&std::path::Path::new(&dir).join("KNOWN_FINDINGS.txt"))
    });
    let prop = sig.split(|c| c == '/' || c == '|').next().unwrap_or("");
    kf.matching(prop, sig).is_some()
}
