//! sfverif: property-based-testing / fuzzing machinery deciding the listed properties C01..C18 of the
//! `sliding_features` crate (path dependency on /repo, so every build sees /repo's working tree).
pub mod alloc;
pub mod catalog;
pub mod core;
pub mod exec;
pub mod gen;
pub mod props;
pub mod q;
pub mod refs;
pub mod refs_ehlers;
pub mod runner;
