//! Byte-level decoder shared by the libFuzzer targets and by `vcheck fuzz-replay`: bytes -> the same `Case` type the proptest
//! strategies produce (spec tree of depth <= 3, scalar, stream, clone position / pattern), through `arbitrary::Unstructured`.
//! Listed-finding configurations are mapped away *inside the decoder* (windows are lifted to the thresholds of
//! `c15::safe_min_window`, Alma::new_custom keeps sigma <= 8) so that a campaign does not rediscover one crash forever.
use crate::catalog::*;
use crate::core::*;
use crate::props::c01::{inners, outers};
use arbitrary::Unstructured;

fn unary(u: &mut Unstructured, inner: Spec) -> arbitrary::Result<Spec> {
    let n = 1 + u.int_in_range(0..=23usize)?;
    let w = u.int_in_range(0..=33usize)?;
    let o = outers(&inner, n);
    let mut s = o[w % o.len()].clone();
    // secondary parameters
    match &mut s {
        Spec::Gte(_, c) | Spec::Lte(_, c) => *c = u.int_in_range(-400i32..=400)? as f64 / 8.0,
        Spec::AlmaCustom(_, n, sg, of) => {
            *sg = [0.5, 1.0, 2.0, 4.0, 6.0, 8.0][u.int_in_range(0..=5usize)?];
            *of = [0.0, 0.25, 0.5, 0.85, 1.0][u.int_in_range(0..=4usize)?];
            // the listed f32 finding (gaussian weights underflow: 0/0) reaches down to sigma = 8 when the window is a single value:
            // exp(-(offset (N+1))^2 sigma^2 / (2 N^2)) leaves f32 for sigma > 12 N / (N+1)
            if *n == 1 && *sg > 6.0 {
                *sg = 6.0;
            }
        }
        Spec::EmaAlpha(_, n, al) => *al = (*n as f64 + 1.0) * (1 + u.int_in_range(0..=7u32)?) as f64 / 8.0,
        Spec::LaguerreFilter(_, g) => *g = [0.0, 0.1, 0.5, 0.8, 0.9, 0.99][u.int_in_range(0..=5usize)?],
        Spec::Roofing(_, _, m) => *m = 1 + u.int_in_range(0..=9usize)?,
        Spec::Eft(_, ma, _) | Spec::Pfe(_, ma, _) => {
            let m = 1 + u.int_in_range(0..=7usize)?;
            **ma = ma_specs(m)[u.int_in_range(0..=2usize)?].clone();
        }
        _ => {}
    }
    Ok(s)
}
fn tree(u: &mut Unstructured, depth: u8) -> arbitrary::Result<Spec> {
    if depth == 0 {
        return Ok(if u.ratio(1u8, 8u8)? { Spec::Constant(u.int_in_range(1i32..=400)? as f64 / 8.0) } else { Spec::Echo });
    }
    match u.int_in_range(0..=9u8)? {
        0 => {
            let a = tree(u, depth - 1)?;
            let b = tree(u, depth - 1)?;
            let (a, b) = (Box::new(a), Box::new(b));
            Ok(match u.int_in_range(0..=3u8)? {
                0 => Spec::Add(a, b),
                1 => Spec::Subtract(a, b),
                2 => Spec::Multiply(a, b),
                _ => Spec::Divide(a, Box::new(Spec::Constant(u.int_in_range(1i32..=400)? as f64 / 8.0))),
            })
        }
        1 => {
            let n = 1 + u.int_in_range(0..=8usize)?;
            let ins = inners(n);
            let i = u.int_in_range(0..=ins.len() - 1)?;
            Ok(ins[i].clone())
        }
        _ => {
            let inner = tree(u, depth - 1)?;
            unary(u, inner)
        }
    }
}

/// the rest of the input as a stream: 2 bytes per value on the 1/8 grid; a zero high byte repeats the previous value (ties, flats)
pub fn stream(u: &mut Unstructured, positive: bool, max: usize) -> Vec<Rat> {
    let mut vals: Vec<Rat> = vec![];
    while let Ok(b) = u.bytes(2) {
        let k = i16::from_le_bytes([b[0], b[1]]) as i64;
        let k = if b[1] == 0 { vals.last().map(|r: &Rat| r.0).unwrap_or(k) } else { k };
        let k = if positive { k.abs().max(1) } else { k };
        vals.push(Rat(k, 8));
        if vals.len() >= max {
            break;
        }
    }
    vals
}

/// Properties served by the `fz_single` target: single views against their definitional / metamorphic oracles.
pub const SINGLE_PROPS: [&str; 11] = ["C02", "C03", "C04", "C05", "C06", "C07", "C10", "C11", "C12", "C13", "C14"];
/// Decode fuzzer bytes into (clause id, case): the case has exactly the shape that clause's own generator produces, so the
/// clause's check function is the oracle and `vcheck replay` can re-execute the JSON form.
pub fn decode_single(prop: &str, data: &[u8]) -> Option<(String, Case)> {
    let mut u = Unstructured::new(data);
    let u = &mut u;
    match prop {
        "C02" => crate::props::c02::fuzz_decode(u),
        "C03" => crate::props::c03::fuzz_decode(u),
        "C04" => crate::props::c04::fuzz_decode(u),
        "C05" => crate::props::c05::fuzz_decode(u),
        "C06" => crate::props::c06::fuzz_decode(u),
        "C07" => crate::props::c07::fuzz_decode(u),
        "C10" => crate::props::c10::fuzz_decode(u),
        "C11" => crate::props::c11::fuzz_decode(u),
        "C12" => crate::props::c12::fuzz_decode(u),
        "C13" => crate::props::c13::fuzz_decode(u),
        "C14" => crate::props::c14::fuzz_decode(u),
        _ => None,
    }
}

/// Decode fuzzer bytes into a case. Returns None when the bytes run out before a tree is complete.
pub fn decode(data: &[u8]) -> Option<Case> {
    let mut u = Unstructured::new(data);
    let depth = 1 + u.int_in_range(0..=2u8).ok()?;
    let spec = tree(&mut u, depth).ok()?;
    let scalar = u.int_in_range(0..=1i64).ok()?;
    let p = u.int_in_range(0..=255i64).ok()?;
    let pattern = u.int_in_range(0..=1_000_000i64).ok()?;
    let positive = spec.needs_positive_input();
    let ny = u.int_in_range(0..=40usize).ok()?;
    let mut vals: Vec<Rat> = vec![];
    // the rest of the input is the stream: 2 bytes per value on the 1/8 grid; a zero high byte repeats the previous value (ties, flats)
    while let Ok(b) = u.bytes(2) {
        let k = i16::from_le_bytes([b[0], b[1]]) as i64;
        let k = if b[1] == 0 { vals.last().map(|r: &Rat| r.0).unwrap_or(k) } else { k };
        let k = if positive { k.abs().max(1) } else { k };
        vals.push(Rat(k, 8));
        if vals.len() >= 600 {
            break;
        }
    }
    let ny = ny.min(vals.len() / 3);
    let ys = vals.split_off(vals.len() - ny);
    let p = if vals.is_empty() { 0 } else { p * (vals.len() as i64 + 1) / 256 };
    Some(Case { spec: Some(spec), xs: vals, ys, ints: vec![scalar, p, pattern], a: Rat(1, 1), ..Default::default() })
}
