//! proptest strategies: the stream grammar, window lengths, parameters.
//! Every random choice is a proptest choice (integers); streams are *rendered* from those integers so that
//! shrinking shortens segment lists and lengths, lowers N and collapses values.
use crate::core::{Rat, Tier};
use proptest::collection::vec;
use proptest::prelude::*;

#[derive(Clone, Copy, Debug)]
pub struct StreamCfg {
    /// reference window: segment lengths are drawn relative to it {1, N-1, N, N+1, 2N, 3N+r, r+2}
    pub n: usize,
    pub min_len: usize,
    pub max_len: usize,
    /// all values >= 1 grid unit (prices)
    pub positive: bool,
    /// value = k * scale
    pub scale: Rat,
    /// base magnitude of k (|k| <= 8*kmax after level shifts)
    pub kmax: i64,
    pub max_segs: usize,
}
impl StreamCfg {
    pub fn new(n: usize) -> StreamCfg {
        StreamCfg { n: n.max(1), min_len: 0, max_len: 6 * n.max(1) + 64, positive: false, scale: Rat(1, 8), kmax: 4096, max_segs: 6 }
    }
    pub fn positive(mut self) -> Self {
        self.positive = true;
        self
    }
    pub fn scale(mut self, s: Rat) -> Self {
        self.scale = s;
        self
    }
    pub fn kmax(mut self, k: i64) -> Self {
        self.kmax = k;
        self
    }
    pub fn len(mut self, lo: usize, hi: usize) -> Self {
        self.min_len = lo;
        self.max_len = hi.max(lo);
        self
    }
    pub fn segs(mut self, s: usize) -> Self {
        self.max_segs = s;
        self
    }
}

pub const N_KINDS: u8 = 16;
pub const KIND_NAMES: [&str; 16] = ["flat", "flat_new", "noise", "walk", "run_up", "run_down", "spike", "zeros", "alternate", "periodic", "step", "sum_zero", "linear", "repeat", "reverse", "small_noise"];

#[derive(Clone, Debug)]
pub struct RawSeg {
    pub kind: u8,
    pub len_sel: u8,
    pub r: u8,
    pub p1: i64,
    pub p2: i64,
    pub vals: Vec<i64>,
}

pub fn raw_segs(cfg: StreamCfg) -> impl Strategy<Value = Vec<RawSeg>> {
    let cap = (3 * cfg.n + 8).min(cfg.max_len.max(1)).min(1200);
    let k = cfg.kmax;
    vec((0u8..N_KINDS, 0u8..7, 0u8..8, -k..=k, 1..=k, vec(-k..=k, cap)), 1..=cfg.max_segs.max(1)).prop_map(|v| v.into_iter().map(|(kind, len_sel, r, p1, p2, vals)| RawSeg { kind, len_sel, r, p1, p2, vals }).collect())
}

/// Render raw segments into grid integers.
pub fn render(segs: &[RawSeg], cfg: &StreamCfg) -> Vec<i64> {
    let n = cfg.n.max(1);
    let kcap = cfg.kmax * 8;
    let fix = |k: i64| -> i64 {
        let k = k.clamp(-kcap, kcap);
        if cfg.positive {
            k.abs().max(1)
        } else {
            k
        }
    };
    let mut out: Vec<i64> = Vec::new();
    let mut cur: i64 = fix(segs.first().map(|s| s.p1).unwrap_or(1));
    for s in segs {
        if out.len() >= cfg.max_len {
            break;
        }
        let want = match s.len_sel {
            0 => 1,
            1 => n.saturating_sub(1).max(1),
            2 => n,
            3 => n + 1,
            4 => 2 * n,
            5 => 3 * n + s.r as usize,
            _ => s.r as usize + 2,
        };
        let len = want.min(s.vals.len().max(1)).min(cfg.max_len - out.len());
        let km = cfg.kmax.max(1);
        let val = |i: usize| -> i64 { s.vals.get(i).copied().unwrap_or(0) };
        let small = |i: usize, m: i64| -> i64 { val(i) * m / (km + 1) }; // monotone map into (-m, m)
        match s.kind {
            0 => {
                for _ in 0..len {
                    out.push(cur);
                }
            }
            1 => {
                cur = fix(s.p1);
                for _ in 0..len {
                    out.push(cur);
                }
            }
            2 => {
                for i in 0..len {
                    cur = fix(val(i));
                    out.push(cur);
                }
            }
            3 => {
                let unit = 1 + s.p2 * 16 / (km + 1);
                for i in 0..len {
                    cur = fix(cur + small(i, 3) * unit);
                    out.push(cur);
                }
            }
            4 => {
                for i in 0..len {
                    cur = fix(cur + 1 + small(i, 3).abs());
                    out.push(cur);
                }
            }
            5 => {
                for i in 0..len {
                    cur = fix(cur - 1 - small(i, 3).abs());
                    out.push(cur);
                }
            }
            6 => {
                let far = fix(cur + if s.p1 >= 0 { s.p2 * 4 + 8 } else { -(s.p2 * 4 + 8) });
                out.push(far);
                for _ in 1..len {
                    out.push(cur);
                }
            }
            7 => {
                cur = fix(0);
                for _ in 0..len {
                    out.push(cur);
                }
            }
            8 => {
                let a = 1 + s.p2 * 64 / (km + 1);
                for i in 0..len {
                    out.push(fix(if i % 2 == 0 { cur + a } else { cur - a }));
                }
            }
            9 => {
                let p = 2 + (s.p2 * 7 / (km + 1)) as usize;
                for i in 0..len {
                    out.push(fix(val(i % p)));
                }
                cur = *out.last().unwrap();
            }
            10 => {
                cur = fix(cur + s.p1);
                for i in 0..len {
                    out.push(fix(cur + small(i, 3)));
                }
            }
            11 => {
                let a = s.p2;
                let base = if cfg.positive { cur } else { 0 };
                for i in 0..len {
                    out.push(fix(base + if i % 2 == 0 { a } else { -a }));
                }
                cur = *out.last().unwrap();
            }
            12 => {
                let slope = s.p1 * 17 / (km + 1);
                for _ in 0..len {
                    cur = fix(cur + slope);
                    out.push(cur);
                }
            }
            13 => {
                if out.is_empty() {
                    out.push(cur);
                } else {
                    let start = (s.p2 as usize * out.len() / (km as usize + 1)).min(out.len() - 1);
                    for i in 0..len {
                        let v = out[(start + i) % out.len().max(1)];
                        out.push(v);
                    }
                    cur = *out.last().unwrap();
                }
            }
            14 => {
                if out.is_empty() {
                    out.push(cur);
                } else {
                    let l = len.min(out.len());
                    let tail: Vec<i64> = out[out.len() - l..].iter().rev().copied().collect();
                    out.extend(tail);
                    cur = *out.last().unwrap();
                }
            }
            _ => {
                for i in 0..len {
                    out.push(fix(cur + small(i, 4)));
                }
            }
        }
    }
    out.truncate(cfg.max_len);
    while out.len() < cfg.min_len {
        // pad by continuing a deterministic small walk derived from what is there (keeps min_len without rejection)
        let i = out.len() as i64;
        let last = out.last().copied().unwrap_or(cur);
        out.push(fix(last + ((i * 7 + last) % 5) - 2));
    }
    out
}

pub fn to_rats(ks: &[i64], scale: Rat) -> Vec<Rat> {
    ks.iter().map(|k| Rat(k * scale.0, scale.1)).collect()
}

/// A stream from the grammar, as exact rationals on the grid `cfg.scale`.
pub fn stream(cfg: StreamCfg) -> BoxedStrategy<Vec<Rat>> {
    raw_segs(cfg).prop_map(move |segs| to_rats(&render(&segs, &cfg), cfg.scale)).boxed()
}
/// `stream`, with negative zeros: for the clauses that opt in (their checks never take a Rat apart)
pub fn stream_nz(cfg: StreamCfg) -> BoxedStrategy<Vec<Rat>> {
    // one case in eight writes some of its zeros as the floating-point negative zero (Rat(0, -d): the number 0 in exact
    // arithmetic, -0.0 in f64 / f32); 7 = on, so that shrinking switches it off when it does not matter
    (raw_segs(cfg), 0u8..8, any::<u64>())
        .prop_map(move |(segs, nz, salt)| {
            let mut v = to_rats(&render(&segs, &cfg), cfg.scale);
            if nz == 7 && !cfg.positive {
                let mut st = salt | 1;
                for r in v.iter_mut() {
                    if r.0 == 0 && splitmix(&mut st) % 2 == 0 {
                        *r = Rat(0, -r.1.abs().max(1));
                    }
                }
            }
            v
        })
        .boxed()
}
/// Same, in grid integers.
pub fn stream_k(cfg: StreamCfg) -> BoxedStrategy<Vec<i64>> {
    raw_segs(cfg).prop_map(move |segs| render(&segs, &cfg)).boxed()
}

/// A long stream (len_lo..=len_hi values): a grammar stream tiled, every other tile reversed, each tile shifted by a generated
/// multiple of the grid. Bugs that need a long history (periodic re-synchronisation, counters, wrapped ring buffers, drift)
/// are out of reach of streams of a few window lengths.
pub fn long_stream(cfg: StreamCfg, len_lo: usize, len_hi: usize) -> BoxedStrategy<Vec<Rat>> {
    let base = cfg.len(cfg.min_len.max(8), cfg.max_len.max(16));
    (stream_k(base), len_lo..=len_hi, -8i64..=8, 0usize..3)
        .prop_map(move |(ks, len, shift, mode)| {
            let kcap = cfg.kmax * 8;
            let mut out: Vec<i64> = Vec::with_capacity(len);
            let mut tile = 0i64;
            while out.len() < len {
                let it: Box<dyn Iterator<Item = &i64>> = if mode == 1 && tile % 2 == 1 { Box::new(ks.iter().rev()) } else { Box::new(ks.iter()) };
                for k in it {
                    if out.len() >= len {
                        break;
                    }
                    let v = (k + if mode == 2 { 0 } else { tile * shift }).clamp(-kcap, kcap);
                    out.push(if cfg.positive { v.abs().max(1) } else { v });
                }
                tile += 1;
            }
            to_rats(&out, cfg.scale)
        })
        .boxed()
}

/// Window length with boundary bias. `lo` = the view's minimum.
pub fn window(tier: Tier, lo: usize, hi_quick: usize, hi_thorough: usize) -> BoxedStrategy<usize> {
    let hi = tier.pick(hi_quick, hi_thorough).max(lo);
    let small_hi = (lo + 8).min(hi);
    // powers of two and their neighbours, also beyond the quick tier's range (up to the thorough bound): a defect that only
    // concerns long windows (a narrow integer type, a buffer sized for "typical" lengths, a threshold on N) must not need the thorough tier
    let specials: Vec<usize> = [16usize, 31, 32, 33, 64, 65, 100, 127, 128, 129, 200, 255, 256, 257].iter().copied().filter(|v| *v >= lo && *v <= hi_thorough.max(hi).min((4 * hi).max(64))).collect();
    // ... and a uniform draw between the tier's range and that cap, so that a defect confined to a band of window lengths
    // (say 41..63) between the special values is reachable too
    let cap = hi_thorough.max(hi).min((4 * hi).max(64));
    if specials.is_empty() {
        prop_oneof![5 => lo..=small_hi, 3 => lo..=hi].boxed()
    } else if cap > hi {
        prop_oneof![15 => lo..=small_hi, 1 => proptest::sample::select(specials), 9 => lo..=hi, 1 => hi + 1..=cap].boxed()
    } else {
        prop_oneof![15 => lo..=small_hi, 1 => proptest::sample::select(specials), 9 => lo..=hi].boxed()
    }
}

/// dyadic grid scales 2^-e
pub fn dyadic_scale() -> BoxedStrategy<Rat> {
    prop_oneof![Just(Rat(1, 1)), Just(Rat(1, 8)), Just(Rat(1, 64))].boxed()
}
/// dyadic grids over a wide range of units (2^-50 .. 2^20): the definitions are homogeneous, so an absolute threshold
/// or a hard-coded level anywhere in a view shows up as a mismatch with the reference at the tiny or the huge unit
pub fn dyadic_scale_wide() -> BoxedStrategy<Rat> {
    prop_oneof![
        2 => Just(Rat(1, 1)), 2 => Just(Rat(1, 8)), 2 => Just(Rat(1, 64)),
        1 => Just(Rat(1, 1 << 30)), 1 => Just(Rat(1, 1 << 50)), 1 => Just(Rat(1 << 20, 1))
    ]
    .boxed()
}
/// decimal (not exactly representable) grid scales
pub fn decimal_scale() -> BoxedStrategy<Rat> {
    prop_oneof![Just(Rat(1, 10)), Just(Rat(1, 100)), Just(Rat(1, 1000)), Just(Rat(3, 1000)), Just(Rat(7, 10))].boxed()
}

/// deterministic 64-bit mixer for long streams derived from a proptest-chosen seed
pub fn splitmix(state: &mut u64) -> u64 {
    *state = state.wrapping_add(0x9E3779B97F4A7C15);
    let mut z = *state;
    z = (z ^ (z >> 30)).wrapping_mul(0xBF58476D1CE4E5B9);
    z = (z ^ (z >> 27)).wrapping_mul(0x94D049BB133111EB);
    z ^ (z >> 31)
}

// ---------------------------------------------------------------------------------------------
// shape classification of a rendered stream (labels for the evidence histograms)

pub fn has_tie(xs: &[Rat]) -> bool {
    xs.windows(2).any(|w| w[0].big() == w[1].big())
}
pub fn has_zero(xs: &[Rat]) -> bool {
    xs.iter().any(|r| r.is_zero())
}
pub fn has_negative(xs: &[Rat]) -> bool {
    xs.iter().any(|r| r.0 < 0)
}
/// some window of n consecutive values is constant
pub fn has_flat_window(xs: &[Rat], n: usize) -> bool {
    if n == 0 || xs.len() < n {
        return false;
    }
    let mut run = 1;
    for i in 1..xs.len() {
        if xs[i].big() == xs[i - 1].big() {
            run += 1;
            if run >= n {
                return true;
            }
        } else {
            run = 1;
        }
    }
    n == 1
}
/// the maximum (or minimum) of some full window is its oldest element and strictly beats the runner-up:
/// evicting it must change the extremum
pub fn has_extremum_eviction(xs: &[Rat], n: usize) -> bool {
    if n < 2 || xs.len() <= n {
        return false;
    }
    let b: Vec<_> = xs.iter().map(|r| r.big()).collect();
    for t in (n - 1)..(b.len() - 1) {
        let w = &b[t + 1 - n..=t];
        let oldest = &w[0];
        if w[1..].iter().all(|v| v < oldest) || w[1..].iter().all(|v| v > oldest) {
            return true;
        }
    }
    false
}
pub fn shape_labels(xs: &[Rat], n: usize) -> Vec<String> {
    let mut l = vec![];
    if xs.len() > n {
        l.push("evicts".to_string());
    }
    if xs.len() < n {
        l.push("shorter_than_N".to_string());
    }
    if has_tie(xs) {
        l.push("tie".into());
    }
    if xs.iter().any(|r| r.0 == 0 && r.1 < 0) {
        l.push("negative_zero".into());
    }
    if has_zero(xs) {
        l.push("zero".into());
    }
    if has_negative(xs) {
        l.push("negative".into());
    }
    if has_flat_window(xs, n.max(2)) {
        l.push("flat_window".into());
    }
    if has_extremum_eviction(xs, n) {
        l.push("extremum_evicted".into());
    }
    l
}

/// Very long integer streams (on a grid chosen by the caller) derived from a proptest-chosen seed; used by the `ultra`
/// clauses that run past 2^16 / 2^17 updates. shape 0: wide noise; 1: walk with 257-step plateaus (flat windows after
/// volatile ones); 2: zero stretches alternating with noise; 3: ties around a level.
pub fn ultra_stream(seed: u64, len: usize, shape: i64) -> Vec<i64> {
    let mut st = seed;
    let mut level: i64 = 50_000;
    (0..len)
        .map(|t| {
            let r = splitmix(&mut st);
            match shape {
                0 => (r % 2_000_001) as i64 - 1_000_000,
                1 => {
                    if (t / 257) % 2 == 0 {
                        level += (r % 2001) as i64 - 1000;
                    }
                    level
                }
                2 => {
                    if (t / 64) % 2 == 0 {
                        0
                    } else {
                        (r % 2001) as i64 - 1000
                    }
                }
                _ => {
                    if r % 5 == 0 {
                        level
                    } else {
                        level + (r % 3) as i64 - 1
                    }
                }
            }
        })
        .collect()
}
/// the steps at which an ultra clause evaluates a definition that is too expensive to evaluate everywhere. Always: around
/// every power of two b from 2^16 on (b-1, b, b+1, b+m+1: where a narrowed counter wraps or saturates, and once its effect
/// has filled a window of m) and the last two steps; then, up to `budget` steps in total, further steps next to those
/// boundaries, the last 40 steps and 96 steps drawn from the seed.
pub fn ultra_checkpoints(seed: u64, len: usize, m: usize, budget: usize) -> Vec<usize> {
    let mut must = std::collections::BTreeSet::new();
    let mut opt = std::collections::BTreeSet::new();
    let mut b = 1usize << 16;
    while b < len + 8 {
        for t in [b - 1, b, b + 1, b + m + 1] {
            if t < len {
                must.insert(t);
            }
        }
        for t in b.saturating_sub(8)..=(b + m + 8) {
            if t < len {
                opt.insert(t);
            }
        }
        b <<= 1;
    }
    for t in len.saturating_sub(2)..len {
        must.insert(t);
    }
    for t in len.saturating_sub(40)..len {
        opt.insert(t);
    }
    let mut st = seed ^ 0xC0FFEE;
    for _ in 0..96 {
        opt.insert((splitmix(&mut st) % len.max(1) as u64) as usize);
    }
    let opt: Vec<usize> = opt.into_iter().filter(|t| !must.contains(t)).collect();
    let room = budget.saturating_sub(must.len());
    if room > 0 && !opt.is_empty() {
        let stride = (opt.len() + room - 1) / room;
        let off = (seed as usize) % stride.max(1);
        for t in opt.into_iter().skip(off).step_by(stride.max(1)) {
            must.insert(t);
        }
    }
    must.into_iter().collect()
}
