//! C16 — Floating-point results track the exact result: no drift, no stale residue.
//! Differential oracle: the same generic code of the crate instantiated at f64 / f32 and at the exact rational scalar Q, fed the
//! same (already rounded) input values; |out_float - out_Q| <= 1e-6 S (f64), 1e-2 S (f32), 1e-4 S on flat-after-volatile tails.
use super::common::f;
use crate::catalog::*;
use crate::core::*;
use crate::exec::*;
use crate::gen::{self, StreamCfg};
use crate::q::{self, XV};
use crate::refs::R;
use num::traits::{One, Signed, Zero};
use proptest::prelude::*;

#[derive(Clone, Copy, Debug)]
enum Scale {
    /// largest input magnitude
    Value,
    /// N x largest input magnitude (Cumulative)
    ValueN,
    /// width of the documented range
    Width(f64),
    /// (N-1) for CoG, 2(N-1)/sqrt(N) for Vsct
    CogWidth,
    VsctWidth,
    /// unbounded ratios: max(1, |exact output|)
    Ratio,
}
#[derive(Clone, Copy)]
struct Entry {
    name: &'static str,
    mk: fn(usize, usize) -> Spec,
    scale: Scale,
    positive: bool,
    min_n: usize,
    /// recursive (O(N) or 512-bit rounding per Q step): shorter exact runs
    heavy: bool,
    /// finite memory K(n) (C03) for the long-stream suffix trick; None = recursive
    k: Option<fn(usize) -> usize>,
}
const LN199X2: f64 = 10.586_609_9;
const fn en(name: &'static str, mk: fn(usize, usize) -> Spec, scale: Scale, positive: bool, min_n: usize, heavy: bool, k: Option<fn(usize) -> usize>) -> Entry {
    Entry { name, mk, scale, positive, min_n, heavy, k }
}
const TABLE: [Entry; 34] = [
    en("Sma", |n, _| Spec::Sma(echo(), n), Scale::Value, false, 1, false, Some(|n| n)),
    en("Ema", |n, _| Spec::Ema(echo(), n), Scale::Value, false, 1, true, None),
    en("Alma", |n, _| Spec::Alma(echo(), n), Scale::Value, false, 1, false, Some(|n| 2 * n)),
    en("Cumulative", |n, _| Spec::Cumulative(echo(), n), Scale::ValueN, false, 1, false, Some(|n| n)),
    en("Min", |n, _| Spec::Min(echo(), n), Scale::Value, false, 1, false, Some(|n| n)),
    en("Max", |n, _| Spec::Max(echo(), n), Scale::Value, false, 1, false, Some(|n| n)),
    en("WelfordOnline", |n, _| Spec::WelfordOnline(echo(), n), Scale::Value, false, 1, false, Some(|n| n)),
    en("WelfordRolling", |_, _| Spec::WelfordRolling(echo()), Scale::Value, false, 1, false, None),
    en("Vst", |n, _| Spec::Vst(echo(), n), Scale::Ratio, false, 2, false, Some(|n| n)),
    en("Vsct", |n, _| Spec::Vsct(echo(), n), Scale::VsctWidth, false, 2, false, Some(|n| n)),
    en("HLNormalizer", |n, _| Spec::HlNormalizer(echo(), n), Scale::Width(2.0), false, 1, false, Some(|n| n)),
    en("Roc", |n, _| Spec::Roc(echo(), n), Scale::Ratio, false, 1, false, Some(|n| n + 1)),
    en("BinaryEntropy", |n, _| Spec::BinaryEntropy(echo(), n), Scale::Width(1.0), false, 1, false, Some(|n| n)),
    en("CenterOfGravity", |n, _| Spec::CenterOfGravity(echo(), n), Scale::CogWidth, true, 2, false, Some(|n| n)),
    en("CTI", |n, _| Spec::Cti(echo(), n), Scale::Width(2.0), false, 2, false, Some(|n| n)),
    en("NET", |n, _| Spec::Net(echo(), n), Scale::Width(2.0), false, 2, false, Some(|n| n)),
    en("Rsi", |n, _| Spec::Rsi(echo(), n), Scale::Width(100.0), false, 1, false, Some(|n| n + 1)),
    en("MyRSI", |n, _| Spec::MyRsi(echo(), n), Scale::Width(2.0), false, 1, false, None),
    en("LaguerreRSI", |n, _| Spec::LaguerreRsi(echo(), n), Scale::Width(1.0), false, 2, true, None),
    en("LaguerreFilter", |_, p| Spec::LaguerreFilter(echo(), [0.2, 0.5, 0.8, 0.9][p % 4]), Scale::Value, false, 1, true, None),
    en("SuperSmoother", |n, _| Spec::SuperSmoother(echo(), n), Scale::Value, false, 1, true, None),
    en("RoofingFilter", |n, p| Spec::Roofing(echo(), n.max(2), 1 + p % 5), Scale::Value, false, 2, true, None),
    en("CyberCycle", |n, _| Spec::CyberCycle(echo(), n.max(3)), Scale::Value, false, 3, true, None),
    en("TrendFlex", |n, _| Spec::TrendFlex(echo(), n), Scale::Width(10.0), false, 3, true, None),
    en("ReFlex", |n, _| Spec::ReFlex(echo(), n), Scale::Width(10.0), false, 3, true, None),
    en("EFT", |n, p| Spec::Eft(echo(), Box::new(ma_specs(1 + p % 5)[p % 3].clone()), n.max(2)), Scale::Width(LN199X2), false, 2, true, None),
    en("PFE", |n, p| Spec::Pfe(echo(), Box::new(ma_specs(1 + p % 5)[p % 3].clone()), n.max(3)), Scale::Width(2.0), false, 3, true, None),
    en("Drawdown", |_, _| Spec::Drawdown(echo()), Scale::Width(1.0), true, 1, false, None),
    en("LnReturn", |_, _| Spec::LnReturn(echo()), Scale::Ratio, true, 1, false, None),
    en("Tanh", |_, _| Spec::Tanh(echo()), Scale::Width(2.0), false, 1, false, None),
    en("GTE", |_, _| Spec::Gte(echo(), 0.375), Scale::Value, false, 1, false, None),
    en("LTE", |_, _| Spec::Lte(echo(), 0.375), Scale::Value, false, 1, false, None),
    en("Echo", |_, _| Spec::Echo, Scale::Value, false, 1, false, None),
    en("AlmaCustom", |n, p| Spec::AlmaCustom(echo(), n, [1.0, 4.0, 8.0][p % 3], [0.25, 0.5, 0.85][(p / 3) % 3]), Scale::Value, false, 1, false, Some(|n| 2 * n)),
];

fn scale_of(e: &Entry, n: usize, maxabs: &R, exact: &R) -> R {
    match e.scale {
        Scale::Value => maxabs.clone(),
        Scale::ValueN => maxabs * R::from_integer((n as i64).into()),
        Scale::Width(w) => f(w),
        Scale::CogWidth => R::from_integer(((n as i64) - 1).max(1).into()),
        Scale::VsctWidth => f(2.0 * (n as f64 - 1.0).max(1.0) / (n as f64).sqrt()),
        Scale::Ratio => {
            if exact.abs() > R::one() {
                exact.abs()
            } else {
                R::one()
            }
        }
    }
}

/// envelope stream: every value is g k with integer 1 <= |k| <= 1000 (or 0), so non-zero magnitudes and non-zero steps span <= 3 decades
fn envelope(n: usize, positive: bool, len: usize) -> BoxedStrategy<Vec<Rat>> {
    let cfg = StreamCfg::new(n).scale(Rat(1, 1)).kmax(125).len(len / 2, len).segs(8);
    let cfg = if positive { cfg.positive() } else { cfg };
    (gen::decimal_scale(), gen::stream_k(cfg)).prop_map(move |(g, ks)| ks.into_iter().map(|k| { let k = k.clamp(-1000, 1000); Rat(k * g.0, g.1) }).collect()).boxed()
}

fn compare(e: &Entry, spec: &Spec, n: usize, xs_exact: &[R], outs: &[Option<XV>], tol_rel: f64, from: usize, id: &str, input: &[Rat]) -> Result<usize, Verdict> {
    let outs_q = run_q(spec, xs_exact);
    let maxabs = {
        let mut m = R::zero();
        xs_exact
            .iter()
            .map(|x| {
                if x.abs() > m {
                    m = x.abs();
                }
                m.clone()
            })
            .collect::<Vec<_>>()
    };
    let mut compared = 0;
    for t in from..xs_exact.len() {
        match (&outs[t], &outs_q[t]) {
            (None, None) => {}
            (Some(a), Some(b)) => {
                let Some(b) = b.fin() else { continue }; // the exact result itself is not finite: C08's subject
                let Some(a) = a.fin() else {
                    return Err(Verdict::fail(format!("{id}|nonfinite"), format!("{} step {t}: floating-point output {} where the exact result is {}; input {}", spec.show(), a.show(), show(b), show_rats(input))));
                };
                let s = scale_of(e, n, &maxabs[t], b);
                let d = abs_diff(a, b);
                if d > f(tol_rel) * &s {
                    return Err(Verdict::fail(format!("{id}|accuracy|N={n}"), format!("{} step {t}: floating-point output {} vs exact {}: |diff| = {} > {tol_rel:e} x scale {}; input {}", spec.show(), show(a), show(b), show(&d), show(&s), show_rats(input))));
                }
                compared += 1;
            }
            (a, b) => return Err(Verdict::fail(format!("{id}|readiness"), format!("{} step {t}: floating point reports {} but exact arithmetic {}; input {}", spec.show(), show_opt(a), show_opt(b), show_rats(input)))),
        }
    }
    Ok(compared)
}

fn full_case(ei: usize, scalar: i64) -> impl Fn(Tier) -> BoxedStrategy<Case> + Send + Sync {
    move |tier: Tier| {
        let e = TABLE[ei];
        let len = match (e.heavy, scalar) {
            (true, _) => tier.pick(300, 2000),
            (false, 0) => tier.pick(1500, 20_000),
            (false, _) => tier.pick(600, 10_000),
        };
        (gen::window(tier, e.min_n, if e.heavy { 12 } else { 32 }, if e.heavy { 32 } else { 64 }), 0usize..30)
            .prop_flat_map(move |(n, p)| envelope(n, e.positive, len).prop_map(move |xs| Case { spec: Some((e.mk)(n, p)), xs, ints: vec![ei as i64, scalar, n as i64], a: Rat(1, 1), ..Default::default() }))
            .boxed()
    }
}
fn full_check(case: &Case) -> Verdict {
    let (ei, scalar, n) = (case.ints[0] as usize, case.ints[1], case.ints[2] as usize);
    let e = TABLE[ei];
    let spec = case.spec();
    let sc = if scalar == 0 { "f64" } else { "f32" };
    let id = format!("C16/full/{}/{sc}", e.name);
    let (exact, outs): (Vec<R>, Vec<Option<XV>>) = if scalar == 0 {
        let xs = f64s(&case.xs);
        (bigs_of_f64(&xs), run_f64(spec, &xs).into_iter().map(|o| o.map(XV::from_f64)).collect())
    } else {
        let xs = f32s(&case.xs);
        (xs.iter().map(|x| q::rat_f64(*x as f64)).collect(), run_f32(spec, &xs).into_iter().map(|o| o.map(XV::from_f32)).collect())
    };
    match compare(&e, spec, n, &exact, &outs, if scalar == 0 { 1e-6 } else { 1e-2 }, 0, &id, &case.xs) {
        Ok(c) => Verdict::pass(case.xs.len() >= 10 * n && c >= 3, vec![format!("len>={}", (case.xs.len() / 100) * 100)]),
        Err(v) => v,
    }
}

/// (iii) an arbitrary volatile prefix followed by >= N+1 (up to 50 N) copies of a non-dyadic value
fn flat_case(ei: usize) -> impl Fn(Tier) -> BoxedStrategy<Case> + Send + Sync {
    move |tier: Tier| {
        let e = TABLE[ei];
        (gen::window(tier, e.min_n, if e.heavy { 10 } else { 24 }, if e.heavy { 24 } else { 64 }), 0usize..30, gen::decimal_scale(), 1i64..=1000, 0usize..4)
            .prop_flat_map(move |(n, p, g, c, rep)| {
                let mut cfg = StreamCfg::new(n).scale(g).kmax(1000).len(0, 5 * n + 10);
                if e.positive {
                    cfg = cfg.positive();
                }
                gen::stream(cfg).prop_map(move |mut xs| {
                    let reps = [n + 1, 2 * n + 3, 8 * n, if e.heavy { 12 * n } else { 50 * n }][rep];
                    let pre = xs.len();
                    // one tail in eight is flat at exactly 0 (inside the envelope: it bounds the non-zero magnitudes only), except for the
                    // two views whose domain is strictly positive; a window of zeros is where a running sum's residue is all that is left
                    let c = if c % 8 == 0 && !matches!(e.name, "Drawdown" | "LnReturn") { 0 } else { c };
                    xs.extend(std::iter::repeat(Rat(c * g.0, g.1)).take(reps));
                    Case { spec: Some((e.mk)(n, p)), xs, ints: vec![ei as i64, 0, n as i64, pre as i64], a: Rat(1, 1), ..Default::default() }
                })
            })
            .boxed()
    }
}
fn flat_check(case: &Case) -> Verdict {
    let (ei, n, pre) = (case.ints[0] as usize, case.ints[2] as usize, case.ints[3] as usize);
    let e = TABLE[ei];
    let spec = case.spec();
    let id = format!("C16/flat/{}/f64", e.name);
    let xs = f64s(&case.xs);
    let exact = bigs_of_f64(&xs);
    let outs: Vec<Option<XV>> = run_f64(spec, &xs).into_iter().map(|o| o.map(XV::from_f64)).collect();
    // compared from the point at which at least N+1 identical values have been delivered
    let from = (pre + n).min(xs.len());
    let spread = {
        let p = &exact[..pre];
        if p.is_empty() {
            R::zero()
        } else {
            p.iter().max().unwrap() - p.iter().min().unwrap()
        }
    };
    match compare(&e, spec, n, &exact, &outs, 1e-4, from, &id, &case.xs) {
        Ok(c) => {
            // the statement names the exact answer for a flat window: it is checked as such (the exact run of the same code would
            // agree with a view that reports the same wrong flat answer in every arithmetic)
            let tail = xs.len() - pre;
            if let (Some(cv), Some(Some(last))) = (exact.last(), outs.last()) {
                let stated: Option<R> = match e.name {
                    "Rsi" if tail >= n + 1 => Some(R::from_integer(100.into())),
                    "Vst" | "Sma" | "Alma" | "AlmaCustom" if tail >= n + 1 => Some(cv.clone()),
                    // (Roc on a tail of zeros holds its previous output: the zero-base exception of C03)
                    "Roc" if cv.is_zero() => None,
                    "Vsct" | "WelfordOnline" | "HLNormalizer" | "CTI" | "NET" | "Roc" if tail >= n + 1 => Some(R::zero()),
                    "Ema" if tail >= 12 * n => Some(cv.clone()),
                    "CyberCycle" if tail >= 12 * n => Some(R::zero()),
                    _ => None,
                };
                if let (Some(want), Some(got)) = (stated, last.fin()) {
                    let maxabs = max_abs(exact.iter());
                    let scale = scale_of(&e, n, &maxabs, &want);
                    if abs_diff(got, &want) > f(1e-4) * &scale {
                        return Verdict::fail(format!("{id}|flat_answer|N={n}"), format!("{}: after a volatile stretch and {tail} identical values {} it reports {} where the statement fixes {} for a flat window; input {}", spec.show(), show(cv), show(got), show(&want), show_rats(&case.xs)));
                    }
                }
            }
            Verdict::pass(c >= 1 && !spread.is_zero(), vec![format!("tail_{}N", (xs.len() - pre) / n.max(1))])
        }
        Err(v) => v,
    }
}

/// (ii) long f64 streams; the exact answer at checkpoints comes from a fresh exact instance fed the last K values (finite memory, C03)
fn long_case(tier: Tier) -> BoxedStrategy<Case> {
    let idx: Vec<usize> = (0..TABLE.len()).filter(|i| TABLE[*i].k.is_some()).collect();
    (proptest::sample::select(idx), 1usize..=24, 0usize..30, any::<u64>(), prop_oneof![Just(20_000usize), Just(tier.pick(100_000usize, 1_000_000usize))], 0i64..3)
        .prop_map(|(ei, n, p, seed, len, shape)| {
            let e = TABLE[ei];
            let n = n.max(e.min_n);
            Case { spec: Some((e.mk)(n, p)), ints: vec![ei as i64, 0, n as i64, (seed >> 1) as i64, len as i64, shape], a: Rat(1, 1), ..Default::default() }
        })
        .boxed()
}
fn long_check(case: &Case) -> Verdict {
    use sliding_features::View;
    let (ei, n, seed, len, shape) = (case.ints[0] as usize, case.ints[2] as usize, case.ints[3] as u64, case.ints[4] as usize, case.ints[5]);
    let e = TABLE[ei];
    let spec = case.spec();
    let k = (e.k.unwrap())(n);
    let id = format!("C16/long/{}/f64", e.name);
    // envelope: x = k/1000 (g = 0.001), 1 <= k <= 1000 (sign by shape), steps multiples of g
    let mut st = seed | 1;
    let mut level: i64 = 500;
    let mut xs: Vec<f64> = Vec::with_capacity(len);
    for t in 0..len {
        let r = gen::splitmix(&mut st);
        let kk: i64 = match shape {
            0 => 1 + (r % 1000) as i64,
            1 => {
                if (t / 211) % 3 != 0 {
                    level = (level + (r % 41) as i64 - 20).clamp(1, 1000);
                }
                level
            }
            _ => {
                let v = 1 + (r % 1000) as i64;
                if e.positive || r & (1 << 40) == 0 {
                    v
                } else {
                    -v
                }
            }
        };
        xs.push(kk as f64 / 1000.0);
    }
    let mut v = build::<f64>(spec);
    let every = (len / 24).max(1);
    let mut compared = 0;
    for t in 0..len {
        v.update(xs[t]);
        if (t % every == every - 1 || t + 1 == len) && t + 1 > 4 * k {
            let got = v.last();
            // exact answer from the last K values (plus N for safety) through a fresh exact instance
            let w = (k + n).min(t + 1);
            let suffix = bigs_of_f64(&xs[t + 1 - w..=t]);
            q::arena_reset();
            let exact = run_q(spec, &suffix).pop().unwrap();
            let maxabs = f(1.0);
            match (got, exact) {
                (Some(g), Some(XV::Fin(b))) => {
                    if !g.is_finite() {
                        return Verdict::fail(format!("{id}|nonfinite"), format!("{} after {} values: {g} (seed {seed}, shape {shape})", spec.show(), t + 1));
                    }
                    let s = scale_of(&e, n, &maxabs, &b);
                    let d = abs_diff(&f(g), &b);
                    if d > f(1e-6) * &s {
                        return Verdict::fail(format!("{id}|accuracy|N={n}"), format!("{} after {} values: f64 output {g:e} vs exact {} over the last {w} values: |diff| = {} > 1e-6 x {} (seed {seed}, shape {shape})", spec.show(), t + 1, show(&b), show(&d), show(&s)));
                    }
                    compared += 1;
                }
                (None, None) => {}
                (Some(_), Some(_)) => {}
                (g, x) => return Verdict::fail(format!("{id}|readiness"), format!("{} after {} values: f64 reports {g:?}, exact {} (seed {seed}, shape {shape})", spec.show(), t + 1, show_opt(&x))),
            }
        }
    }
    Verdict::pass(compared >= 3, vec![format!("len_{len}"), format!("shape_{shape}")])
}

pub fn clauses() -> Vec<Clause> {
    let mut v = vec![];
    for (ei, e) in TABLE.iter().enumerate() {
        let rule_full = format!("{}: envelope streams (every value g k, integer |k| <= 1000 or 0, decimal g, so non-zero magnitudes and steps span <= 3 decades) of up to {} values (thorough {}), N from the view's minimum; the crate's code at f64 (f32) and at the exact scalar Q over the same already-rounded inputs, compared at every step: |diff| <= 1e-6 S (f64) / 1e-2 S (f32), S = natural scale (largest input magnitude; N x that for Cumulative; width of the documented range for bounded indicators; max(1, |exact|) for Vst, Roc, LnReturn). Non-trivial: >= 10 N values and >= 3 steps compared.", e.name, if e.heavy { 300 } else { 1500 }, if e.heavy { 2000 } else { 20_000 });
        v.push(Clause::generated("C16", format!("C16/full/{}/f64", e.name), rule_full.clone(), if e.heavy { 24 } else { 40 }, if e.heavy { 200 } else { 600 }, full_case(ei, 0), full_check).with_shard(2));
        v.push(Clause::generated("C16", format!("C16/full/{}/f32", e.name), rule_full, if e.heavy { 12 } else { 24 }, if e.heavy { 100 } else { 300 }, full_case(ei, 1), full_check).with_shard(2));
        v.push(Clause::generated("C16", format!("C16/flat/{}/f64", e.name), format!("{}: grammar prefix of 0..5N+10 values on a decimal grid (volatile: walks, spikes, steps) followed by N+1, 2N+3, 8N or 50N (12N for the recursive views) copies of a non-dyadic value (one tail in eight: of exactly 0); from the (N+1)-th identical value on, f64 vs the exact run within 1e-4 S, and at the end of the tail the answer the statement names for a flat window (Rsi 100; Vst, Sma, Alma the value; Vsct, WelfordOnline, HLNormalizer, CTI, NET, Roc 0; Ema the value and CyberCycle 0 after 12N values) within 1e-4 S. Non-trivial: the prefix is not constant and >= 1 step compared.", e.name), if e.heavy { 40 } else { 120 }, if e.heavy { 400 } else { 3000 }, flat_case(ei), flat_check).with_shard(if e.heavy { 4 } else { 10 }));
    }
    v.push(Clause::generated("C16", "C16/long/f64", "finite-memory views (K from C03) over envelope streams of 2e4 / 1e5 (thorough 1e6) values derived from a generated seed (noise, slow walk with plateaus, signed noise): f64 run, exact answer at 24 evenly spaced checkpoints and the end from a fresh exact instance fed the last K+N values (valid by C03); |diff| <= 1e-6 S. Recursive views are contractive (C09) and are covered by the full-length exact runs instead.", 60, 600, long_case, long_check).with_shard(2));
    v
}
