//! C07 — Bounded indicators stay inside their documented range (to a few ulps of the bound).
//! Adversarial generated histories (flat after volatile, steps, linear runs, decimal grids, magnitudes spanning 1e-3..1e6 inside one
//! stream) in f64, f32 and Q; every floating-point failure is re-run in Q to tell numerical from algorithmic failures (`exact_ok`).
use super::common::f;
use crate::catalog::*;
use crate::core::*;
use crate::exec::*;
use crate::gen::{self, StreamCfg};
use crate::q::{self, Q, XV};
use crate::refs::{self, R};
use num::traits::{One, Signed, Zero};
use proptest::prelude::*;

#[derive(Clone, Copy, Debug)]
enum Bound {
    /// lo <= out <= hi
    Range(f64, f64),
    /// |out| <= ln 199
    Ln199,
    /// out >= 0
    NonNeg,
    /// |out| <= (N-1)/sqrt(N)
    Vsct,
    /// Min <= out <= Max over the same window (Sma, Alma, newest value)
    MinMax,
    /// out >= clip / out <= clip
    Gte,
    Lte,
    /// in [0,1) and non-decreasing (positive input)
    Drawdown,
    /// |out| <= (N-1)/2 (positive input)
    Cog,
}
#[derive(Clone, Copy)]
struct Entry {
    name: &'static str,
    mk: fn(usize, usize) -> Spec,
    bound: Bound,
    positive: bool,
    min_n: usize,
}
const CLIP: f64 = 12.5;
const TABLE: [Entry; 21] = [
    Entry { name: "Rsi", mk: |n, _| Spec::Rsi(echo(), n), bound: Bound::Range(0.0, 100.0), positive: false, min_n: 2 },
    Entry { name: "MyRSI", mk: |n, _| Spec::MyRsi(echo(), n), bound: Bound::Range(-1.0, 1.0), positive: false, min_n: 2 },
    Entry { name: "HLNormalizer", mk: |n, _| Spec::HlNormalizer(echo(), n), bound: Bound::Range(-1.0, 1.0), positive: false, min_n: 2 },
    Entry { name: "CTI", mk: |n, _| Spec::Cti(echo(), n), bound: Bound::Range(-1.0, 1.0), positive: false, min_n: 2 },
    Entry { name: "NET", mk: |n, _| Spec::Net(echo(), n), bound: Bound::Range(-1.0, 1.0), positive: false, min_n: 2 },
    Entry { name: "Tanh", mk: |_, _| Spec::Tanh(echo()), bound: Bound::Range(-1.0, 1.0), positive: false, min_n: 2 },
    Entry { name: "PFE", mk: |n, p| Spec::Pfe(echo(), Box::new(ma_specs(1 + p % 6)[p % 3].clone()), n), bound: Bound::Range(-1.0, 1.0), positive: false, min_n: 3 },
    Entry { name: "LaguerreRSI", mk: |n, _| Spec::LaguerreRsi(echo(), n), bound: Bound::Range(0.0, 1.0), positive: false, min_n: 2 },
    Entry { name: "BinaryEntropy", mk: |n, _| Spec::BinaryEntropy(echo(), n), bound: Bound::Range(0.0, 1.0), positive: false, min_n: 2 },
    Entry { name: "EFT", mk: |n, p| Spec::Eft(echo(), Box::new(ma_specs(1 + p % 6)[p % 3].clone()), n), bound: Bound::Ln199, positive: false, min_n: 2 },
    Entry { name: "WelfordOnline", mk: |n, _| Spec::WelfordOnline(echo(), n), bound: Bound::NonNeg, positive: false, min_n: 2 },
    Entry { name: "WelfordRolling", mk: |_, _| Spec::WelfordRolling(echo()), bound: Bound::NonNeg, positive: false, min_n: 2 },
    Entry { name: "Vsct", mk: |n, _| Spec::Vsct(echo(), n), bound: Bound::Vsct, positive: false, min_n: 2 },
    Entry { name: "Sma", mk: |n, _| Spec::Sma(echo(), n), bound: Bound::MinMax, positive: false, min_n: 2 },
    Entry { name: "Alma", mk: |n, _| Spec::Alma(echo(), n), bound: Bound::MinMax, positive: false, min_n: 2 },
    Entry { name: "Echo", mk: |_, _| Spec::Echo, bound: Bound::MinMax, positive: false, min_n: 2 },
    Entry { name: "GTE", mk: |_, _| Spec::Gte(echo(), CLIP), bound: Bound::Gte, positive: false, min_n: 2 },
    Entry { name: "LTE", mk: |_, _| Spec::Lte(echo(), CLIP), bound: Bound::Lte, positive: false, min_n: 2 },
    Entry { name: "Drawdown", mk: |_, _| Spec::Drawdown(echo()), bound: Bound::Drawdown, positive: true, min_n: 2 },
    Entry { name: "CenterOfGravity", mk: |n, _| Spec::CenterOfGravity(echo(), n), bound: Bound::Cog, positive: true, min_n: 2 },
    Entry { name: "AlmaCustom", mk: |n, p| Spec::AlmaCustom(echo(), n, [0.5, 2.0, 6.0, 10.0][p % 4], [0.0, 0.5, 0.85, 1.0][(p / 4) % 4]), bound: Bound::MinMax, positive: false, min_n: 2 },
];

/// adversarial streams: a grammar stream, then (by `shape`) a flat stretch, a step to a far level, a perfectly linear run, or a
/// stretch at a magnitude 1e3..1e9 times smaller / larger; decimal or dyadic grid
fn adversarial(n: usize, positive: bool, decimal: bool, long: bool) -> BoxedStrategy<Vec<Rat>> {
    let scale = if decimal { gen::decimal_scale() } else { gen::dyadic_scale() };
    (scale, 0usize..6, 1i64..=1000, 0usize..4, 0u32..4)
        .prop_flat_map(move |(sc, shape, k, rep, mag)| {
            let mut cfg = StreamCfg::new(n).scale(sc).len(0, if long { 14 * n + 20 } else { 5 * n + 10 }).kmax(4000);
            if positive {
                cfg = cfg.positive();
            }
            gen::stream(cfg).prop_map(move |mut xs| {
                let last = xs.last().copied().unwrap_or(Rat(k * sc.0, sc.1));
                let m = [1i64, 1000, 1_000_000, 1_000_000_000][mag as usize];
                let tail = n * (1 + rep) + 2;
                match shape {
                    1 => xs.extend(std::iter::repeat(last).take(tail)), // flat after volatile
                    2 => xs.extend(std::iter::repeat(Rat(k * sc.0, sc.1 * m)).take(tail)), // step to a level up to 1e9 x smaller, then flat
                    3 => {
                        // perfectly linear run with a slope that is tiny against the level
                        for i in 0..tail as i64 {
                            xs.push(Rat(last.0 * m / m + i * sc.0, sc.1 * if m > 1000 { 1000 } else { m }).max_den());
                        }
                    }
                    4 => {
                        // small wiggles around a far level (spread << level)
                        for i in 0..tail as i64 {
                            xs.push(Rat(last.0 * 1000 + (i * 7 + k) % 5, last.1 * 1000).max_den());
                        }
                    }
                    5 => {
                        // strictly monotone run
                        for i in 1..=tail as i64 {
                            xs.push(Rat(last.0 + i * k * sc.0, last.1));
                        }
                    }
                    _ => {}
                }
                if positive {
                    xs = xs.into_iter().map(|r| if r.0 <= 0 { Rat(sc.0, sc.1) } else { r }).collect();
                }
                xs
            })
        })
        .boxed()
}
trait MaxDen {
    fn max_den(self) -> Rat;
}
impl MaxDen for Rat {
    /// keep numerators / denominators inside the exact-f64 range
    fn max_den(self) -> Rat {
        if self.0.abs() < (1 << 52) && self.1 < (1 << 52) && self.1 > 0 {
            self
        } else {
            Rat(self.0 / 1024, (self.1 / 1024).max(1))
        }
    }
}

fn strategy(ei: usize, scalar: i64) -> impl Fn(Tier) -> BoxedStrategy<Case> + Send + Sync {
    move |tier: Tier| {
        let en = TABLE[ei];
        (gen::window(tier, en.min_n, 32, 100), 0usize..48, any::<bool>())
            .prop_flat_map(move |(n, p, decimal)| adversarial(n, en.positive, decimal && scalar != 2, scalar == 0).prop_map(move |xs| Case { spec: Some((en.mk)(n, p)), xs, ints: vec![ei as i64, scalar, n as i64], a: Rat(1, 1), ..Default::default() }))
            .boxed()
    }
}

/// excess of `v` beyond [lo, hi] (0 if inside)
fn excess(v: &R, lo: Option<&R>, hi: Option<&R>) -> R {
    if let Some(lo) = lo {
        if v < lo {
            return lo - v;
        }
    }
    if let Some(hi) = hi {
        if v > hi {
            return v - hi;
        }
    }
    R::zero()
}

/// run the view at a scalar and return, per step, (output as exact value, bounds, slack) violations
fn evaluate(case: &Case, scalar: i64) -> Result<(usize, usize, bool), (String, String)> {
    // Ok((values checked, values within 1% of a bound, degenerate window seen))
    let en = TABLE[case.ints[0] as usize];
    let n = case.ints[2] as usize;
    let spec = case.spec();
    // the stream as the scalar sees it (f32/f64 round the decimal grid; the bounds are taken over those rounded values)
    let (h, outs): (Vec<R>, Vec<Option<XV>>) = match scalar {
        0 => {
            let xs = f64s(&case.xs);
            (bigs_of_f64(&xs), run_f64(spec, &xs).into_iter().map(|o| o.map(XV::from_f64)).collect())
        }
        1 => {
            let xs = f32s(&case.xs);
            (xs.iter().map(|x| q::rat_f64(*x as f64)).collect(), run_f32(spec, &xs).into_iter().map(|o| o.map(XV::from_f32)).collect())
        }
        _ => {
            let h = bigs(&case.xs);
            let o = run_q(spec, &h);
            (h, o)
        }
    };
    judge(&en, n, scalar, &h, &outs)
}

/// the bound of C07 for `en` at every step of a run (h: the inputs as the scalar saw them, outs: what the view reported)
fn judge(en: &Entry, n: usize, scalar: i64, h: &[R], outs: &[Option<XV>]) -> Result<(usize, usize, bool), (String, String)> {
    let eps: f64 = match scalar {
        0 => f64::EPSILON,
        1 => f32::EPSILON as f64,
        _ => 0.0,
    };
    // views whose value is a quotient of N-term sums (weighted means, centre of gravity, (x - mean)/std): every summand
    // contributes half an ulp of rounding, so "a few ulps" is 8 + N there
    let summed = matches!(en.bound, Bound::MinMax | Bound::Cog | Bound::Vsct) && en.name != "Echo";
    let few = if summed { 8.0 + n as f64 } else { 8.0 };
    let ulps = |bound: &R, width: &R| -> R {
        // "a few ulps of the bound itself": 8 (+N) ulps of |bound| (of the range width for a bound of 0); exact scalar: Q's own rounding only
        if scalar == 2 {
            tol_q_irr(&(bound.abs() + width))
        } else {
            let b = if bound.is_zero() { width.clone() } else { bound.abs() };
            f(few * eps) * b
        }
    };
    // bounds that do not depend on the window's content are evaluated once
    let fixed: Option<(Option<R>, Option<R>)> = match en.bound {
        Bound::Range(a, b) => Some((Some(f(a)), Some(f(b)))),
        Bound::Ln199 => {
            let l = Q::from_ratio(R::from_integer(199.into())).ln_pub();
            Some((Some(-l.clone()), Some(l)))
        }
        Bound::NonNeg => Some((Some(R::zero()), None)),
        Bound::Vsct => {
            let b = R::from_integer((n as i64 - 1).into()) / refs::sqrt(&R::from_integer((n as i64).into()));
            Some((Some(-b.clone()), Some(b)))
        }
        Bound::MinMax => None,
        Bound::Gte => Some((Some(f(CLIP)), None)),
        Bound::Lte => Some((None, Some(f(CLIP)))),
        Bound::Drawdown => Some((Some(R::zero()), Some(R::one()))),
        Bound::Cog => {
            let b = R::from_integer((n as i64 - 1).into()) / R::from_integer(2.into());
            Some((Some(-b.clone()), Some(b)))
        }
    };
    let mut checked = 0;
    let mut near = 0;
    let mut degenerate = false;
    let mut prev: Option<R> = None;
    for t in 0..h.len() {
        let Some(o) = &outs[t] else { continue };
        let Some(v) = o.fin() else {
            return Err(("nonfinite".into(), format!("step {t}: reported {}", o.show())));
        };
        let w = refs::window(h, t, n);
        if w.windows(2).all(|p| p[0] == p[1]) {
            degenerate = true;
        }
        let (lo, hi): (Option<R>, Option<R>) = match en.bound {
            Bound::MinMax => (Some(refs::min_of(w)), Some(refs::max_of(w))),
            _ => fixed.clone().unwrap(),
        };
        let width = match (&lo, &hi) {
            (Some(a), Some(b)) => (b - a).abs(),
            (Some(a), None) | (None, Some(a)) => a.abs() + R::one(),
            _ => R::one(),
        };
        let ex = excess(v, lo.as_ref(), hi.as_ref());
        if !ex.is_zero() {
            let bound_hit = if lo.as_ref().map_or(false, |l| v < l) { lo.clone().unwrap() } else { hi.clone().unwrap() };
            if ex > ulps(&bound_hit, &width) {
                return Err(("range".into(), format!("step {t}: output {} is outside [{}, {}] by {} (more than a few ulps of the bound)", show(v), lo.as_ref().map(show).unwrap_or("-inf".into()), hi.as_ref().map(show).unwrap_or("+inf".into()), show(&ex))));
            }
        }
        if matches!(en.bound, Bound::Drawdown) {
            // [0,1): a value of exactly 1 can only arise by rounding (peak - trough)/peak up; it is within an ulp of the bound.
            // In exact arithmetic the bound is strict.
            if scalar == 2 && v >= &R::one() {
                return Err(("range".into(), format!("step {t}: Drawdown reported {} (must stay below 1 for positive inputs)", show(v))));
            }
            if let Some(p) = &prev {
                if v < p {
                    return Err(("monotone".into(), format!("step {t}: Drawdown decreased from {} to {}", show(p), show(v))));
                }
            }
            prev = Some(v.clone());
        }
        checked += 1;
        let d_lo = lo.as_ref().map(|l| (v - l).abs());
        let d_hi = hi.as_ref().map(|h| (h - v).abs());
        let dmin = match (d_lo, d_hi) {
            (Some(a), Some(b)) => a.min(b),
            (Some(a), None) | (None, Some(a)) => a,
            _ => width.clone(),
        };
        if dmin <= &width * f(0.01) {
            near += 1;
        }
    }
    Ok((checked, near, degenerate))
}

fn check(case: &Case) -> Verdict {
    let en = TABLE[case.ints[0] as usize];
    let scalar = case.ints[1];
    let sc = ["f64", "f32", "Q"][scalar as usize];
    let spec = case.spec();
    match evaluate(case, scalar) {
        Ok((checked, near, degenerate)) => {
            let mut l = vec![];
            if near > 0 {
                l.push("came_within_1%_of_a_bound".to_string());
            }
            if degenerate {
                l.push("degenerate_window(flat)".into());
            }
            Verdict::pass(checked >= 3 && (near > 0 || degenerate), l)
        }
        Err((kind, m)) => {
            let exact_ok = if scalar == 2 {
                false
            } else {
                q::arena_reset();
                evaluate(case, 2).is_ok()
            };
            Verdict::fail(format!("C07/range/{}/{sc}|{kind}{}", en.name, if exact_ok { "|exact_ok" } else { "" }), format!("{} [{sc}]: {m}; input {}", spec.show(), show_rats(&case.xs)))
        }
    }
}

/// ultra-long runs at the exact scalar (where every bound holds without rounding slack): ints = [entry, 2, n, seed, len, shape]
fn ultra_case(ei: usize) -> impl Fn(Tier) -> BoxedStrategy<Case> + Send + Sync {
    move |tier: Tier| {
        let en = TABLE[ei];
        (prop_oneof![3 => en.min_n..=en.min_n + 6, 1 => 9usize..=24], 0usize..48, any::<u64>(), 0i64..4)
            .prop_map(move |(n, p, seed, shape)| Case { spec: Some((en.mk)(n, p)), ints: vec![ei as i64, 2, n as i64, (seed >> 1) as i64, { let _ = tier; 135_000i64 }, shape], a: Rat(1, 1), ..Default::default() })
            .boxed()
    }
}
fn ultra_check(case: &Case) -> Verdict {
    let en = TABLE[case.ints[0] as usize];
    let n = case.ints[2] as usize;
    let (seed, len, shape) = (case.ints[3] as u64, case.ints[4] as usize, case.ints[5]);
    let spec = case.spec();
    let h: Vec<R> = gen::ultra_stream(seed, len, shape).into_iter().map(|k| R::new((if en.positive { k.abs().max(1) } else { k }).into(), 8.into())).collect();
    let outs = run_q(spec, &h);
    match judge(&en, n, 2, &h, &outs) {
        Ok((checked, _, degenerate)) => Verdict::pass(checked >= 70_000, if degenerate { vec![format!("shape_{shape}"), "degenerate_window(flat)".into()] } else { vec![format!("shape_{shape}")] }),
        Err((kind, m)) => Verdict::fail(format!("C07/range/{}/Q|{kind}|ultra", en.name), format!("{} [Q]: {m} (stream: seed {seed}, len {len}, shape {shape}, grid 1/8)", spec.show())),
    }
}

/// fz_single: table entry, N, secondary parameter, scalar, stream
pub fn fuzz_decode(u: &mut arbitrary::Unstructured) -> Option<(String, Case)> {
    let ei = u.int_in_range(0..=TABLE.len() - 1).ok()?;
    let en = TABLE[ei];
    let n = en.min_n + u.int_in_range(0..=23usize).ok()?;
    let p = u.int_in_range(0..=47usize).ok()?;
    let scalar = u.int_in_range(0..=2i64).ok()?;
    let xs = crate::fuzzdec::stream(u, en.positive, 160);
    Some((format!("C07/range/{}/{}", en.name, ["f64", "f32", "Q"][scalar as usize]), Case { spec: Some((en.mk)(n, p)), xs, ints: vec![ei as i64, scalar, n as i64], a: Rat(1, 1), ..Default::default() }))
}

pub fn clauses() -> Vec<Clause> {
    let mut v = vec![];
    for (ei, en) in TABLE.iter().enumerate() {
        let b = match en.bound {
            Bound::Range(a, b) => format!("in [{a}, {b}]"),
            Bound::Ln199 => "|out| <= ln 199".into(),
            Bound::NonNeg => ">= 0".into(),
            Bound::Vsct => "|out| <= (N-1)/sqrt(N)".into(),
            Bound::MinMax => "Min <= out <= Max over the same window".into(),
            Bound::Gte => ">= clip".into(),
            Bound::Lte => "<= clip".into(),
            Bound::Drawdown => "in [0,1) and non-decreasing (positive input)".into(),
            Bound::Cog => "|out| <= (N-1)/2 (positive input)".into(),
        };
        for (scalar, sc, q, t) in [(0i64, "f64", 1500u32, 40_000u32), (1, "f32", 800, 20_000), (2, "Q", 400, 8_000)] {
            let rule = format!("{}: {b}. N in 2..32 and, rarely, one of 64, 65, 100, 127, 128 (thorough ..100 and up to 257); grammar stream of 0..14N+20 values (5N+10 in f32/Q) on a decimal or dyadic grid followed by one of: flat stretch of N(1+r)+2 values, step to a level up to 1e9 times smaller then flat, perfectly linear run with a slope tiny against the level, small wiggles around a far level, strictly monotone run. Tolerance: 8 ulps of the bound (8 + N for the quotients of N-term sums: Sma, Alma, CoG, Vsct; of the range width for a bound of 0). Non-trivial: >= 3 values checked and (some value within 1% of a bound, or a flat window occurred).", en.name);
            v.push(Clause::generated("C07", format!("C07/range/{}/{sc}", en.name), rule, q, t, strategy(ei, scalar), check).with_shard(if scalar == 2 { 50 } else { 250 }));
        }
        if !matches!(en.name, "Echo" | "GTE" | "LTE" | "Tanh" | "PFE") {
            // (PFE: every run ends at the listed finding C07/range/PFE, nothing further would be explored)
            v.push(Clause::generated("C07", format!("C07/ultra/{}/Q", en.name), format!("{}: {b}. Ultra-long histories: 135 000 values (both tiers: the exact scalar's arena of big values is bounded; past 2^16 and 2^17 updates) on the 1/8 grid derived from a generated seed (wide noise; walk with plateaus; zero stretches; ties around a level), N from the minimum to +6 (1 in 4: 9..24); the crate's code at the exact scalar, the bound checked at every step without rounding slack. Non-trivial: >= 70 000 outputs checked.", en.name), 1, 20, ultra_case(ei), ultra_check).with_shard(1));
        }
    }
    v
}
