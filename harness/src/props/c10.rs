//! C10 — Linear views obey superposition; DC behaviour of the low-pass and high-pass members.
use super::common::f;
use crate::catalog::*;
use crate::core::*;
use crate::exec::*;
use crate::gen::{self, StreamCfg};
use crate::q::XV;
use crate::refs::R;
use num::traits::{One, Signed, Zero};
use proptest::prelude::*;

#[derive(Clone, Copy)]
struct Lin {
    name: &'static str,
    mk: fn(usize, usize) -> Spec,
    min_n: usize,
}
const GAMMAS: [f64; 8] = [0.0, 0.1, 0.3, 0.5, 0.7, 0.8, 0.9, 0.99];
/// gamma for parameter p in 0..48: the eight of the DC grid, then forty more spread over [0, 0.99)
fn gamma_of(p: usize) -> f64 {
    let p = p % 48;
    if p < 8 { GAMMAS[p] } else { (p - 8) as f64 * 0.02475 }
}
const LINEAR: [Lin; 10] = [
    Lin { name: "Sma", mk: |n, _| Spec::Sma(echo(), n), min_n: 1 },
    Lin { name: "Ema", mk: |n, _| Spec::Ema(echo(), n), min_n: 1 },
    Lin { name: "Alma", mk: |n, _| Spec::Alma(echo(), n), min_n: 1 },
    Lin { name: "Cumulative", mk: |n, _| Spec::Cumulative(echo(), n), min_n: 1 },
    Lin { name: "LaguerreFilter", mk: |_, p| Spec::LaguerreFilter(echo(), gamma_of(p)), min_n: 1 },
    Lin { name: "SuperSmoother", mk: |n, _| Spec::SuperSmoother(echo(), n), min_n: 1 },
    Lin { name: "RoofingFilter", mk: |n, p| Spec::Roofing(echo(), n, 1 + p % 6), min_n: 2 },
    Lin { name: "CyberCycle", mk: |n, _| Spec::CyberCycle(echo(), n), min_n: 3 },
    // custom constructors: Ema::with_alpha with weight alpha/(N+1) = j/8, j = 1..15 (over-relaxed weights in (1, 2) are still a
    // linear, stable recursion) and Alma::new_custom over the sigma / offset grid of C04
    Lin { name: "EmaAlpha", mk: |n, p| Spec::EmaAlpha(echo(), n, (n as f64 + 1.0) * (1 + p % 15) as f64 / 8.0), min_n: 1 },
    Lin { name: "AlmaCustom", mk: |n, p| Spec::AlmaCustom(echo(), n, [0.5, 1.0, 2.0, 4.0, 6.0, 8.0, 12.0][p % 7], [0.0, 0.25, 0.5, 0.85, 1.0][(p / 7) % 5]), min_n: 1 },
];

fn strategy(i: usize, exact: bool) -> impl Fn(Tier) -> BoxedStrategy<Case> + Send + Sync {
    move |tier: Tier| {
        let lin = LINEAR[i];
        (gen::window(tier, lin.min_n, 20, 64), 0usize..48, -24i64..=24, -24i64..=24, 1i64..=8, 0usize..4)
            .prop_flat_map(move |(n, p, an, bn, den, mode)| {
                let len = 3 * n + 16;
                let cfg = StreamCfg::new(n).scale(Rat(1, 8)).kmax(1024).len(len, len);
                (gen::stream(cfg), gen::stream(cfg)).prop_map(move |(xs, mut ys)| {
                    // y = -x on a segment, so that a x + b y (with a = b) and the filter state pass through exactly 0
                    let l = xs.len();
                    match mode {
                        1 => {
                            for j in 0..l / 2 {
                                ys[j] = xs[j].neg();
                            }
                        }
                        2 => {
                            for j in l / 3..l {
                                ys[j] = xs[j].neg();
                            }
                        }
                        3 => ys = xs.iter().map(|r| r.neg()).collect(),
                        _ => {}
                    }
                    // exact leg: arbitrary rationals a = an/den, b = bn/den; f64 leg: dyadic a, b so that a x + b y is exact in f64
                    let d = if exact { den } else { 8 };
                    let (a, b) = if mode == 1 || mode == 3 { (Rat(an, d), Rat(an, d)) } else { (Rat(an, d), Rat(bn, d)) };
                    // f64 leg: one case in three multiplies both coefficients by 2^k2, k2 in {-60, -200, 100} (ints[1]): superposition is
                    // homogeneous, so a flush-to-zero or clamp at some absolute magnitude shows there and nowhere at ordinary scale
                    let k2 = if exact { 0 } else { [0i64, 0, 0, 0, -60, -200, 100, 0, -60][p % 9] };
                    Case { spec: Some((lin.mk)(n, p)), xs, ys, a, b, ints: vec![i as i64, k2], ..Default::default() }
                })
            })
            .boxed()
    }
}

fn check(exact: bool) -> impl Fn(&Case) -> Verdict + Send + Sync {
    move |case: &Case| {
        let lin = LINEAR[case.ints[0] as usize];
        let spec = case.spec();
        let sc = if exact { "Q" } else { "f64" };
        let id = format!("C10/{}/superposition/{sc}", lin.name);
        let k2 = case.ints.get(1).copied().unwrap_or(0) as i32;
        let (a, b) = (case.a.big() * pow2(k2), case.b.big() * pow2(k2));
        let (x, y) = (bigs(&case.xs), bigs(&case.ys));
        let z: Vec<R> = x.iter().zip(y.iter()).map(|(p, q)| &a * p + &b * q).collect();
        let run = |h: &[R]| -> Vec<Option<XV>> {
            if exact {
                run_q(spec, h)
            } else {
                let v: Vec<f64> = h.iter().map(crate::q::ratio_to_f64).collect();
                run_f64(spec, &v).into_iter().map(|o| o.map(XV::from_f64)).collect()
            }
        };
        let (ox, oy, oz) = (run(&x), run(&y), run(&z));
        let fin_max = |o: &[Option<XV>]| max_abs(o.iter().flatten().filter_map(|v| v.fin()));
        // homogeneous in (a, b): the admissible noise is relative to what the two terms can contribute (no absolute floor in f64)
        let scale = if exact {
            a.abs() * fin_max(&ox) + b.abs() * fin_max(&oy) + max_abs(x.iter().chain(y.iter())) + R::one()
        } else {
            a.abs() * (fin_max(&ox) + max_abs(x.iter())) + b.abs() * (fin_max(&oy) + max_abs(y.iter()))
        };
        let mut compared = 0;
        let mut zero_state = false;
        let mut distinct = std::collections::BTreeSet::new();
        for t in 0..x.len() {
            match (&ox[t], &oy[t], &oz[t]) {
                (None, None, None) => {}
                (Some(p), Some(q), Some(r)) => {
                    let (Some(p), Some(q), Some(r)) = (p.fin(), q.fin(), r.fin()) else {
                        return Verdict::fail(format!("{id}|nonfinite"), format!("{} step {t}: non-finite output", spec.show()));
                    };
                    let want = &a * p + &b * q;
                    let tol = if exact { tol_q(&scale) } else { f(1e-9) * &scale };
                    if abs_diff(&want, r) > tol {
                        return Verdict::fail(format!("{id}|value"), format!("{} step {t}: view(a x + b y) = {} but a view(x) + b view(y) = {} (a = {}/{} x 2^{k2}, b = {}/{} x 2^{k2}); x = {}, y = {}", spec.show(), show(r), show(&want), case.a.0, case.a.1, case.b.0, case.b.1, show_rats(&case.xs), show_rats(&case.ys)));
                    }
                    if r.is_zero() && !p.is_zero() {
                        zero_state = true;
                    }
                    distinct.insert(show(r));
                    compared += 1;
                }
                _ => return Verdict::fail(format!("{id}|readiness"), format!("{} step {t}: readiness differs between the three runs", spec.show())),
            }
        }
        let mut l = vec![];
        if zero_state {
            l.push("combined_output_exactly_zero".to_string());
        }
        if case.a.is_zero() || case.b.is_zero() {
            l.push("zero_coefficient".into());
        }
        if case.a.0 < 0 || case.b.0 < 0 {
            l.push("negative_coefficient".into());
        }
        Verdict::pass(compared >= 3 && case.xs != case.ys && distinct.len() >= 2, l)
    }
}

/// ultra-long runs (past 2^16 and 2^17 updates) in f64: x, y from two seeds on the 1/8 grid, a, b dyadic; ints = [view, seed, len, shape]
fn ultra_cases(tier: Tier) -> Vec<Case> {
    let len = tier.pick(135_000usize, 1_100_000usize);
    let mut out = vec![];
    for (i, lin) in LINEAR.iter().enumerate() {
        for (j, n) in [lin.min_n.max(3), 16].into_iter().enumerate() {
            out.push(Case { spec: Some((lin.mk)(n, 5 + 3 * j)), a: Rat(3 - 8 * j as i64, 8), b: Rat(5, 8), ints: vec![i as i64, 0xC10_0000 + 17 * i as i64 + j as i64, len as i64, ((i + j) % 4) as i64], ..Default::default() });
        }
    }
    out
}
fn ultra_check(case: &Case) -> Verdict {
    let (seed, len, shape) = (case.ints[1] as u64, case.ints[2] as usize, case.ints[3]);
    let xs = gen::to_rats(&gen::ultra_stream(seed, len, shape), Rat(1, 8));
    let ys = gen::to_rats(&gen::ultra_stream(seed ^ 0x5A5A5A, len, (shape + 1) % 4), Rat(1, 8));
    let full = Case { xs, ys, ints: vec![case.ints[0], 0], ..case.clone() };
    match check(false)(&full) {
        Verdict::Fail { sig, msg } => {
            let cut = msg.find("; x = ").unwrap_or(msg.len());
            Verdict::Fail { sig: sig.replace("/superposition/", "/ultra/"), msg: format!("{} (x = ultra_stream(seed {seed}, len {len}, shape {shape}), y = ultra_stream(seed ^ 0x5A5A5A, len, shape + 1 mod 4), grid 1/8)", &msg[..cut]) }
        }
        v => v,
    }
}

// ------------------------------------------------------------------------------------------------ DC clauses (enumerated over N)

/// window lengths of the enumerated stability / DC clauses. quick: every N to 64 and 19 longer ones; thorough: every N to 256,
/// then every 8th to 1024 (a defect confined to one window length or a narrow band of them must not slip through the grid)
pub fn n_grid(tier: Tier) -> Vec<usize> {
    let mut v: Vec<usize> = (1..=tier.pick(64, 256)).collect();
    v.extend([72, 81, 90, 96, 100, 110, 128, 150, 160, 200, 256, 300, 333, 400, 500, 512, 700, 777, 1024]);
    if tier == Tier::Thorough {
        v.extend((264..=1024).step_by(8));
    }
    v.sort();
    v.dedup();
    v
}
fn dc_cases(tier: Tier) -> Vec<Case> {
    let mut out = vec![];
    for n in n_grid(tier) {
        for (vi, c) in [(5usize, 1000i64), (5, -3), (6, 1000), (6, -77), (7, 1000), (7, 5)] {
            let lin = LINEAR[vi];
            if n < lin.min_n && !(vi == 6 && n == 1) {
                continue; // CyberCycle N < 3 panics (C15); RoofingFilter N = 1 is kept: it is an accepted configuration
            }
            let ms: Vec<usize> = if vi == 6 { vec![1, 3, 10] } else { vec![0] };
            for m in ms {
                let spec = if vi == 6 { Spec::Roofing(echo(), n, m) } else { (lin.mk)(n, 0) };
                out.push(Case { spec: Some(spec), ints: vec![vi as i64, c, n as i64, m as i64], a: Rat(1, 1), ..Default::default() });
            }
        }
        // LaguerreFilter: constant reproduced exactly from the first output (gamma grid), once per gamma at n = 1..8
        if n <= GAMMAS.len() {
            out.push(Case { spec: Some(Spec::LaguerreFilter(echo(), GAMMAS[n - 1])), ints: vec![4, 37, n as i64, 0], a: Rat(1, 1), ..Default::default() });
        }
    }
    out
}
fn dc_check(case: &Case) -> Verdict {
    let spec = case.spec();
    let (vi, c, n, m) = (case.ints[0] as usize, case.ints[1], case.ints[2] as usize, case.ints[3] as usize);
    let name = LINEAR[vi].name;
    let cval = c as f64 / 8.0;
    if vi == 4 {
        // exact: every output equals c
        let h = vec![R::new(c.into(), 8.into()); 60];
        let outs = run_q(spec, &h);
        for (t, o) in outs.iter().enumerate() {
            match o.as_ref().and_then(|v| v.fin()) {
                Some(v) if abs_diff(v, &h[0]) <= tol_q(&h[0]) => {}
                _ => return Verdict::fail(format!("C10/{name}/dc/Q|value"), format!("{} step {t}: constant input {cval} gave {}", spec.show(), show_opt(o))),
            }
        }
        return Verdict::pass(true, vec![name.to_string()]);
    }
    let t_h = 100 * n.max(m).max(25);
    let xs = vec![cval; 2 * t_h];
    let outs = run_f64(spec, &xs);
    let target = if vi == 5 { cval } else { 0.0 };
    let mut worst: f64 = 0.0;
    for (t, o) in outs.iter().enumerate().skip(t_h) {
        match o {
            Some(v) if v.is_finite() => worst = worst.max((v - target).abs()),
            other => return Verdict::fail(format!("C10/{name}/dc/f64|N={n}|nonfinite"), format!("{} step {t}: constant input {cval} gave {other:?}", spec.show())),
        }
    }
    if worst > 1e-6 * cval.abs() {
        return Verdict::fail(format!("C10/{name}/dc/f64|N={n}|value"), format!("{}: constant input {cval}: after the horizon T = {t_h} the output still deviates from {target} by {worst:e} (> 1e-6 |c|)", spec.show()));
    }
    Verdict::pass(true, vec![name.to_string()])
}

/// fz_single: linear view, N, parameter, a, b (dyadic in the f64 leg), the stream cut into x and y of equal length
pub fn fuzz_decode(u: &mut arbitrary::Unstructured) -> Option<(String, Case)> {
    let i = u.int_in_range(0..=LINEAR.len() - 1).ok()?;
    let lin = LINEAR[i];
    let n = lin.min_n + u.int_in_range(0..=19usize).ok()?;
    let p = u.int_in_range(0..=47usize).ok()?;
    let exact = u.int_in_range(0..=1u8).ok()? == 0;
    let (an, bn, den) = (u.int_in_range(-24..=24i64).ok()?, u.int_in_range(-24..=24i64).ok()?, 1 + u.int_in_range(0..=7i64).ok()?);
    let mut xs = crate::fuzzdec::stream(u, false, 200);
    let ys = xs.split_off(xs.len() / 2);
    xs.truncate(ys.len());
    let d = if exact { den } else { 8 };
    Some((format!("C10/{}/superposition/{}", lin.name, if exact { "Q" } else { "f64" }), Case { spec: Some((lin.mk)(n, p)), xs, ys, a: Rat(an, d), b: Rat(bn, d), ints: vec![i as i64], ..Default::default() }))
}

pub fn clauses() -> Vec<Clause> {
    let mut v = vec![];
    let g = "N from the view's minimum to 20 (thorough 64) with boundary bias, gamma from 48 values in [0, 0.99] for LaguerreFilter, M in 1..6 for RoofingFilter, Ema::with_alpha with weight alpha/(N+1) = j/8 (j = 1..15), Alma::new_custom over sigma in {0.5..12} x offset in {0..1}; two grammar streams x, y of 3N+16 values on the 1/8 grid, y = -x on a generated segment (so the combined stream and the filter state pass through exactly 0), a, b rational incl. 0 and negatives; three instances fed x, y and a x + b y.";
    for (i, lin) in LINEAR.iter().enumerate() {
        let heavy = matches!(lin.name, "SuperSmoother" | "RoofingFilter" | "Alma" | "AlmaCustom");
        v.push(Clause::generated("C10", format!("C10/{}/superposition/Q", lin.name), format!("{g} Oracle: out_z = a out_x + b out_y and identical readiness at every step, exactly in Q. Non-trivial: x != y, >= 3 steps compared, >= 2 distinct combined outputs."), if heavy { 500 } else { 1200 }, 30_000, strategy(i, true), check(true)).with_shard(if heavy { 32 } else { 100 }));
        v.push(Clause::generated("C10", format!("C10/{}/superposition/f64", lin.name), format!("{g} f64 with dyadic a, b (a x + b y exact), one case in three with both multiplied by 2^-60, 2^-200 or 2^100; tolerance 1e-9 (|a| (max|out_x| + max|x|) + |b| (max|out_y| + max|y|)): homogeneous, no absolute floor."), 1500, 40_000, strategy(i, false), check(false)).with_shard(500));
    }
    v.push(Clause::enumerated("C10", "C10/ultra/enumerated", "Enumerated: every linear view (incl. the custom constructors) at two windows (minimum or 3; 16), x and y of 135 000 values each (thorough 1.1e6; past 2^16 and 2^17 updates) from two seeds on the 1/8 grid, a in {3/8, -5/8}, b = 5/8; f64, same oracle and tolerance as the f64 superposition clauses at every step.", ultra_cases, ultra_check).with_shard(2));
    v.push(Clause::enumerated("C10", "C10/dc/enumerated", "Enumerated: every N in 1..64 and {72, 81, 90, 96, 100, 110, 128, 150, 160, 200, 256, 300, 333, 400, 500, 512, 700, 777, 1024} (thorough: every N to 256, then every 8th to 1024) (CyberCycle from 3; RoofingFilter with M in {1,3,10}), constant stream c of length 2T, T = 100 max(N, M, 25): SuperSmoother within 1e-6|c| of c, RoofingFilter and CyberCycle within 1e-6|c| of 0 on [T, 2T] (f64); LaguerreFilter returns c exactly from its first output for every gamma of the grid (Q). (Sma, Ema, Alma: C04/constant.)", dc_cases, dc_check).with_shard(16));
    v
}
