//! C15 — No panic: every constructed view accepts every finite in-domain stream.
//! Oracle: catch_unwind around construction-then-(update | last)*; any unwind out of update/last is a violation.
//! Both cargo profiles: `release` (what a user gets) and `relassert` (debug assertions + overflow checks armed).
use crate::catalog::*;
use crate::core::*;
use crate::gen::{self, StreamCfg};
use crate::runner::guarded;
use proptest::prelude::*;
use sliding_features::View;

pub const STREAM_CLASSES: [&str; 13] = ["empty", "single", "constant", "zeros", "ties", "up", "down", "alternating", "noise", "sum_zero", "shorter_than_N", "exactly_N", "long_mix"];
/// grid scales: magnitudes from 1e-3 to ~1e6 ("moderate")
const SCALES: [Rat; 4] = [Rat(1, 1000), Rat(1, 8), Rat(1, 1), Rat(30, 1)];

pub fn class_stream_pub(class: usize, n: usize, positive: bool, salt: u64) -> Vec<i64> {
    class_stream(class, n, positive, salt)
}
fn class_stream(class: usize, n: usize, positive: bool, salt: u64) -> Vec<i64> {
    let mut st = salt.wrapping_mul(0x9E37).wrapping_add(class as u64 * 77 + n as u64);
    let mut rnd = |m: i64| -> i64 { (gen::splitmix(&mut st) % (m as u64)) as i64 };
    let base: i64 = 100 + rnd(900);
    let ks: Vec<i64> = match class {
        0 => vec![],
        1 => vec![base],
        2 => vec![base; 3 * n + 5],
        3 => vec![0; 3 * n + 5],
        4 => (0..3 * n + 8).map(|i| base + [0, 0, 1, 1, 1, 0, 2, 2][i % 8]).collect(),
        5 => (0..3 * n + 5).map(|i| base + 3 * i as i64).collect(),
        6 => (0..3 * n + 5).map(|i| 40_000 - 3 * i as i64).collect(),
        7 => (0..3 * n + 5).map(|i| if i % 2 == 0 { base } else { -base }).collect(),
        8 => (0..4 * n + 9).map(|_| rnd(8001) - 4000).collect(),
        9 => (0..3 * n + 6).map(|i| if i % 2 == 0 { base } else { -base }).chain([0, 0, 0]).collect(),
        10 => (0..n.saturating_sub(1)).map(|_| rnd(8001) - 4000).collect(),
        11 => (0..n).map(|_| rnd(8001) - 4000).collect(),
        _ => {
            let mut v: Vec<i64> = (0..2 * n + 10).map(|_| rnd(8001) - 4000).collect();
            v.extend(std::iter::repeat(base).take(n + 10));
            v.extend((0..n + 10).map(|i| base + i as i64));
            v.extend(std::iter::repeat(0).take(n + 5));
            v.extend((0..n + 5).map(|_| rnd(8001) - 4000));
            v
        }
    };
    if positive {
        ks.into_iter().map(|k| k.abs().max(1)).collect()
    } else {
        ks
    }
}

fn msg_class(msg: &str) -> (String, String) {
    // "message @ file:line" -> (file stem, normalised message)
    let (m, loc) = msg.rsplit_once(" @ ").unwrap_or((msg, ""));
    let file = loc.rsplit_once(':').map(|x| x.0).unwrap_or(loc);
    let stem = if file.contains("/repo/") || file.starts_with("src/") || file.contains("sliding_features") { file.rsplit('/').next().unwrap_or("").trim_end_matches(".rs").to_string() } else { "std".to_string() };
    let norm: String = m.chars().filter(|c| !c.is_ascii_digit()).map(|c| if c.is_whitespace() { '_' } else { c }).take(48).collect();
    (stem, norm)
}
/// Which nodes of the tree can own a panic raised in source file `stem`: nodes defined in that file, and nodes
/// that embed such a view (PFE / EFT own their moving average, RoofingFilter owns its SuperSmoother).
pub fn owners(spec: &Spec, stem: &str) -> String {
    fn file_of(s: &Spec) -> &'static str {
        match s {
            Spec::Cti(..) => "correlation_trend_indicator",
            Spec::CyberCycle(..) => "cyber_cycle",
            Spec::Eft(..) => "ehlers_fisher_transform",
            Spec::Pfe(..) => "polarized_fractal_efficiency",
            Spec::Net(..) => "noise_elimination_technology",
            Spec::Roofing(..) => "roofing_filter",
            Spec::SuperSmoother(..) => "super_smoother",
            Spec::Rsi(..) => "rsi",
            Spec::MyRsi(..) => "my_rsi",
            Spec::Sma(..) => "sma",
            Spec::Ema(..) | Spec::EmaAlpha(..) => "ema",
            Spec::Alma(..) | Spec::AlmaCustom(..) => "alma",
            Spec::ReFlex(..) => "re_flex",
            Spec::TrendFlex(..) => "trend_flex",
            Spec::LaguerreRsi(..) => "laguerre_rsi",
            Spec::LaguerreFilter(..) => "laguerre_filter",
            Spec::WelfordOnline(..) => "welford_online",
            Spec::Vst(..) => "variance_stabilizing_transformation",
            Spec::Vsct(..) => "vsct",
            Spec::HlNormalizer(..) => "hl_normalizer",
            Spec::CenterOfGravity(..) => "center_of_gravity",
            Spec::BinaryEntropy(..) => "binary_entropy",
            Spec::Cumulative(..) => "cumulative",
            Spec::Roc(..) => "roc",
            Spec::Min(..) => "min",
            Spec::Max(..) => "max",
            Spec::Tanh(..) => "tanh",
            Spec::Gte(..) => "gte",
            Spec::Lte(..) => "lte",
            Spec::Add(..) => "add",
            Spec::Subtract(..) => "subtract",
            Spec::Multiply(..) => "multiply",
            Spec::Divide(..) => "divide",
            Spec::Drawdown(..) => "drawdown",
            Spec::LnReturn(..) => "ln_return",
            Spec::WelfordRolling(..) => "welford_rolling",
            Spec::Echo => "echo",
            Spec::Constant(..) => "constant",
        }
    }
    fn tag(s: &Spec) -> String {
        match s.own_windows().first() {
            Some(w) => format!("{}:{}", s.name(), w),
            None => s.name().to_string(),
        }
    }
    fn walk(s: &Spec, stem: &str, out: &mut Vec<String>) {
        let embeds = match s {
            Spec::Pfe(_, m, _) | Spec::Eft(_, m, _) => file_of(m) == stem,
            Spec::Roofing(..) => stem == "super_smoother",
            Spec::Vst(..) | Spec::Vsct(..) => stem == "welford_online",
            _ => false,
        };
        if embeds {
            out.push(tag(s));
            // the embedded view itself is not listed separately
            if let Spec::Pfe(a, _, _) | Spec::Eft(a, _, _) = s {
                walk(a, stem, out);
            } else {
                for c in s.children() {
                    walk(c, stem, out);
                }
            }
            return;
        }
        if file_of(s) == stem {
            out.push(tag(s));
        }
        for c in s.children() {
            walk(c, stem, out);
        }
    }
    let mut v = vec![];
    walk(spec, stem, &mut v);
    v.sort();
    v.dedup();
    if v.is_empty() {
        tag(spec)
    } else {
        v.join("+")
    }
}

/// Drive one view through construct / last / (update, last*)*. Returns Err(panic message) on unwind.
fn drive<T: Scalar>(spec: &Spec, xs: &[T], pattern: u64) -> Result<Result<(bool, usize), String>, String> {
    // outer Err: constructor rejected; inner Err: panic in update/last
    let mut v = guarded(|| build::<T>(spec))?;
    Ok(guarded(move || {
        let mut st = pattern;
        let mut ready_at: Option<usize> = None;
        if pattern % 2 == 0 {
            let _ = v.last(); // last() before the first update
        }
        for (i, x) in xs.iter().enumerate() {
            v.update(*x);
            let calls = if pattern == 0 { 1 } else { gen::splitmix(&mut st) % 4 };
            for _ in 0..calls {
                if v.last().is_some() && ready_at.is_none() {
                    ready_at = Some(i);
                }
            }
        }
        let _ = v.last();
        (ready_at.is_some(), ready_at.map(|r| xs.len() - 1 - r).unwrap_or(0))
    }))
}

fn check(profile: &'static str) -> impl Fn(&Case) -> Verdict + Send + Sync {
    move |case: &Case| {
        let spec = case.spec();
        let scalar = case.ints.first().copied().unwrap_or(0);
        let pattern = case.ints.get(1).copied().unwrap_or(0) as u64;
        let r = if scalar == 0 {
            let xs: Vec<f64> = case.xs.iter().map(|r| r.f64()).collect();
            drive::<f64>(spec, &xs, pattern)
        } else {
            let xs: Vec<f32> = case.xs.iter().map(|r| r.f32()).collect();
            drive::<f32>(spec, &xs, pattern)
        };
        let n = spec.max_window().max(1);
        match r {
            Err(_ctor) => Verdict::Discard("constructor rejects the configuration".into()),
            Ok(Ok((ready, after))) => {
                let nontrivial = (ready && after >= 2 * n) || n > case.xs.len();
                let mut labels = vec![];
                if ready {
                    labels.push("became_ready".to_string());
                }
                if n > case.xs.len() {
                    labels.push("window_longer_than_stream".into());
                }
                if n <= 3 {
                    labels.push("N<=3".into());
                }
                Verdict::pass(nontrivial, labels)
            }
            Ok(Err(msg)) => {
                let (stem, norm) = msg_class(&msg);
                let own = owners(spec, &stem);
                Verdict::fail(format!("C15|{profile}|{}|{own}|{stem}|{norm}", if scalar == 0 { "f64" } else { "f32" }), format!("{} panicked on a {}-value {} stream: {}", spec.show(), case.xs.len(), if scalar == 0 { "f64" } else { "f32" }, msg))
            }
        }
    }
}

fn enumerate(tier: Tier) -> Vec<Case> {
    let mut out = vec![];
    let nmax = 64;
    // every N to 64, then long windows around the powers of two (a fast path, a narrow index type, a buffer sized for
    // "typical" lengths): four in the quick tier, ten in the thorough tier
    let long: &[usize] = match tier {
        Tier::Quick => &[65, 100, 128, 257],
        Tier::Thorough => &[65, 100, 127, 128, 129, 255, 256, 257, 512, 1000],
    };
    for n in (1..=nmax).chain(long.iter().copied()) {
        let mut specs = unary_grid(n);
        if n == 1 {
            // window-less views and the binary combinators once
            specs.push(Spec::Echo);
            specs.push(Spec::Constant(2.5));
            for b in binary_over(&Spec::Echo, &Spec::Constant(2.0)) {
                specs.push(b);
            }
            for b in binary_over(&Spec::Sma(echo(), 2), &Spec::Echo) {
                if !matches!(b, Spec::Divide(..)) {
                    specs.push(b);
                }
            }
        } else {
            // window-less views need not be repeated for every n
            specs.retain(|s| !s.own_windows().is_empty());
        }
        for spec in specs {
            let positive = spec.needs_positive_input();
            for class in 0..STREAM_CLASSES.len() {
                // quick: rotate scalar/scale per (n, class); thorough: all scalars, two scales
                let combos: Vec<(i64, usize)> = match tier {
                    Tier::Quick => vec![(((n + class) % 2) as i64, (n + class) % SCALES.len())],
                    Tier::Thorough => vec![(0, (n + class) % SCALES.len()), (1, 1), (0, 0), (0, 3)],
                };
                for (scalar, sc) in combos {
                    let sc = if scalar == 1 { sc.min(2) } else { sc }; // f32: |x| <= 32768
                    let ks = class_stream(class, n, positive, (n * 31 + class) as u64);
                    let xs = gen::to_rats(&ks, SCALES[sc]);
                    out.push(Case { spec: Some(spec.clone()), xs, ints: vec![scalar, (class % 3) as i64], a: Rat(1, 1), ..Default::default() });
                }
            }
        }
    }
    out
}

/// ultra-long runs (past 2^16 and 2^17 updates): an arithmetic overflow of a narrowed counter is a panic under debug assertions.
/// ints = [scalar, pattern, seed, len, shape]
fn ultra_cases(tier: Tier) -> Vec<Case> {
    let len = tier.pick(135_000usize, 1_100_000usize);
    let mut out = vec![];
    for n in [5usize, 16] {
        for (w, spec) in unary_grid(n).into_iter().enumerate() {
            if n == 16 && spec.own_windows().is_empty() {
                continue;
            }
            out.push(Case { spec: Some(spec), ints: vec![((w + n) % 2) as i64, (w % 3) as i64, (0xC15_0000 + 41 * w + n) as i64, len as i64, (w % 4) as i64], a: Rat(1, 1), ..Default::default() });
        }
    }
    out
}
fn ultra_check(profile: &'static str) -> impl Fn(&Case) -> Verdict + Send + Sync {
    let inner = check(profile);
    move |case: &Case| {
        let spec = case.spec();
        let (seed, len, shape) = (case.ints[2] as u64, case.ints[3] as usize, case.ints[4]);
        let positive = spec.needs_positive_input();
        // f32 legs: |x| <= 2^15 as elsewhere in this property
        let div = if case.ints[0] == 1 { 64 } else { 1 };
        let ks: Vec<i64> = gen::ultra_stream(seed, len, shape).into_iter().map(|k| if positive { (k / div).abs().max(1) } else { k / div }).collect();
        let full = Case { xs: gen::to_rats(&ks, Rat(1, 8)), ints: case.ints[..2].to_vec(), ..case.clone() };
        match inner(&full) {
            Verdict::Fail { sig, msg } => Verdict::Fail { sig, msg: format!("{msg} (stream: ultra_stream(seed {seed}, len {len}, shape {shape}){}, grid 1/8)", if div > 1 { " / 64" } else { "" }) },
            v => v,
        }
    }
}

/// smallest window for which a view is free of *listed* findings (exclusion by construction in the chain generator)
pub fn safe_min_window(name: &str) -> usize {
    match name {
        "CyberCycle" | "PFE" => 3,
        "EFT" | "RoofingFilter" => 2,
        _ => 1,
    }
}

fn param_unary(inner: Spec, which: usize, n: usize, m: usize, p: usize) -> Spec {
    // choose the `which`-th wrapper from the full grid for window n (secondary parameter index p)
    let grid = unary_grid(n);
    let names: Vec<&'static str> = {
        let mut v: Vec<&'static str> = vec![];
        for g in &grid {
            if !v.contains(&g.name()) {
                v.push(g.name());
            }
        }
        v
    };
    let name = names[which % names.len()];
    let n = n.max(safe_min_window(name));
    let grid = unary_grid(n);
    let variants: Vec<&Spec> = grid.iter().filter(|g| g.name() == name).collect();
    let mut s = variants[p % variants.len()].clone();
    // replace the Echo child by `inner`; the embedded MA keeps window m
    fn set_child(s: &mut Spec, inner: Spec, m: usize) {
        match s {
            Spec::Tanh(a) | Spec::Gte(a, _) | Spec::Lte(a, _) | Spec::Drawdown(a) | Spec::LnReturn(a) | Spec::WelfordRolling(a) => **a = inner,
            Spec::Eft(a, ma, _) | Spec::Pfe(a, ma, _) => {
                **a = inner;
                match &mut **ma {
                    Spec::Sma(_, w) | Spec::Ema(_, w) | Spec::Alma(_, w) => *w = m.max(1),
                    _ => {}
                }
            }
            Spec::Alma(a, _) | Spec::AlmaCustom(a, ..) | Spec::BinaryEntropy(a, _) | Spec::CenterOfGravity(a, _) | Spec::Cti(a, _) | Spec::Cumulative(a, _) | Spec::CyberCycle(a, _) | Spec::Ema(a, _) | Spec::EmaAlpha(a, ..) | Spec::HlNormalizer(a, _) | Spec::LaguerreFilter(a, _) | Spec::LaguerreRsi(a, _) | Spec::Max(a, _) | Spec::Min(a, _) | Spec::MyRsi(a, _) | Spec::Net(a, _) | Spec::ReFlex(a, _) | Spec::Roc(a, _) | Spec::Roofing(a, ..) | Spec::Rsi(a, _) | Spec::Sma(a, _) | Spec::SuperSmoother(a, _) | Spec::TrendFlex(a, _) | Spec::Vst(a, _) | Spec::Vsct(a, _) | Spec::WelfordOnline(a, _) => **a = inner,
            _ => {}
        }
    }
    set_child(&mut s, inner, m);
    s
}

/// random two-level chain (unary over unary, unary over binary, binary over unaries) with in-domain structure
pub fn chain_strategy(nmax: usize) -> BoxedStrategy<Spec> {
    let leaf = (0usize..40, 1usize..=nmax, 1usize..=9, 0usize..8).prop_map(|(w, n, m, p)| param_unary(Spec::Echo, w, n, m, p));
    let leaf2 = (0usize..40, 1usize..=nmax, 1usize..=9, 0usize..8).prop_map(|(w, n, m, p)| param_unary(Spec::Echo, w, n, m, p));
    let bin = (leaf.clone(), leaf2, 0usize..4, 1i64..=4000).prop_map(|(a, b, op, c)| {
        let cst = Spec::Constant(c as f64 / 8.0);
        match op {
            0 => Spec::Add(Box::new(a), Box::new(b)),
            1 => Spec::Subtract(Box::new(a), Box::new(b)),
            2 => Spec::Multiply(Box::new(a), Box::new(b)),
            _ => Spec::Divide(Box::new(a), Box::new(cst)),
        }
    });
    let inner = prop_oneof![4 => leaf, 1 => bin];
    (inner, 0usize..40, 1usize..=nmax, 1usize..=9, 0usize..8, 0usize..3)
        .prop_map(|(inner, w, n, m, p, shape)| match shape {
            0 | 1 => param_unary(inner, w, n, m, p),
            _ => inner,
        })
        .boxed()
}

fn chain_cases(_profile: &'static str) -> impl Fn(Tier) -> BoxedStrategy<Case> + Send + Sync {
    move |tier: Tier| {
        let nmax = tier.pick(24, 64);
        (chain_strategy(nmax), 0usize..SCALES.len(), 0i64..2, 0i64..1000)
            .prop_flat_map(move |(spec, sc, scalar, pattern)| {
                let n = spec.max_window().max(1);
                let sc = if scalar == 1 { sc.min(1) } else { sc };
                let cfg = StreamCfg::new(n).scale(SCALES[sc]).kmax(4000).len(0, 6 * n + 40);
                // positive raw input if the tree needs it; trees that are out of domain even then are re-drawn structurally:
                let positive = spec.needs_positive_input();
                let cfg = if positive { cfg.positive() } else { cfg };
                gen::stream_nz(cfg).prop_map(move |xs| Case { spec: Some(spec.clone()), xs, ints: vec![scalar, pattern], a: Rat(1, 1), ..Default::default() })
            })
            .boxed()
    }
}

/// "Moderate magnitude" applies to what every view of a chain is delivered: the outputs of the inner view(s) of the outermost node
/// must be 0 or within [1e-9, 1e12] (an inner filter whose impulse response has decayed to 1e-43 hands its wrapper a subnormal
/// number; dividing by it overflows f32 - that is outside the property's input domain, not a defect of the wrapper).
pub fn inner_outputs_moderate(spec: &Spec, xs: &[Rat], f32_leg: bool) -> bool {
    fn ok(v: f64) -> bool {
        v == 0.0 || (v.is_finite() && v.abs() >= 1e-9 && v.abs() <= 1e12)
    }
    let children: Vec<&Spec> = spec.children().into_iter().take(match spec {
        Spec::Eft(..) | Spec::Pfe(..) => 1, // the embedded average is not fed raw input
        _ => 2,
    }).collect();
    for c in children {
        if matches!(c, Spec::Echo | Spec::Constant(_)) {
            continue;
        }
        let good = guarded(|| {
            if f32_leg {
                crate::exec::run_f32(c, &crate::exec::f32s(xs)).into_iter().flatten().all(|v| ok(v as f64))
            } else {
                crate::exec::run_f64(c, &crate::exec::f64s(xs)).into_iter().flatten().all(ok)
            }
        });
        if good != Ok(true) {
            return false;
        }
    }
    true
}

fn chain_check(profile: &'static str) -> impl Fn(&Case) -> Verdict + Send + Sync {
    let inner = check(profile);
    move |case: &Case| {
        let spec = case.spec();
        let positive = case.xs.iter().all(|r| r.0 > 0);
        let ok = if positive { spec.domain_ok_positive_input() } else { spec.domain_ok_signed_input() };
        if !ok {
            return Verdict::Discard("tree outside the documented input domain (Drawdown/LnReturn over a non-positive chain, or possibly-zero divisor)".into());
        }
        match inner(case) {
            Verdict::Fail { sig, msg } => {
                // a panic of the outer view only counts if what it was delivered was of moderate magnitude
                if !inner_outputs_moderate(spec, &case.xs, case.ints.first().copied().unwrap_or(0) == 1) {
                    Verdict::Discard("the inner view's outputs leave the moderate range (0 or 1e-9..1e12), or the inner view itself fails".into())
                } else {
                    Verdict::Fail { sig, msg }
                }
            }
            other => other,
        }
    }
}

pub fn clauses() -> Vec<Clause> {
    let rule_enum = "Enumerated: every view over Echo x every N in 1..=64 and {65, 100, 128, 257} (thorough: ten long windows up to 1000) x secondary-parameter grid x 13 stream classes (empty, single, constant, zeros, ties, up, down, alternating, noise, sum_zero, shorter than N, exactly N, long mix) x scalar/scale rotation (thorough: f64 at 3 scales + f32); last() also before the first update and 0-3 times after each. Non-trivial: the view became ready and was driven >= 2N further steps, or N > stream length; distinct by (spec, stream, scalar).";
    let rule_chain = "Generated: two-level chains (unary over unary, unary over binary combinator, binary over two unaries) with random windows and secondary parameters, grammar streams of 0..6N+40 values at magnitudes 1e-3..1e6 (positive where Drawdown/LnReturn/Divide need it), interleaved update/last patterns. Windows below a view's listed-finding threshold (CyberCycle, PFE < 3; EFT, Roofing < 2) are excluded by construction in chains and covered by the enumeration clause. Non-trivial as above.";
    vec![
        Clause::enumerated("C15", "C15/enum/release", rule_enum, enumerate, check("release")).with_shard(1500),
        Clause::enumerated("C15", "C15/enum/relassert", rule_enum, enumerate, check("relassert")).with_profile("relassert").with_shard(1500),
        Clause::enumerated("C15", "C15/ultra/release", "Enumerated: every view over Echo with the full secondary-parameter grid at N in {5, 16}, 135 000 values (thorough 1.1e6; past 2^16 and 2^17 updates) on the 1/8 grid, four stream shapes, f64 / f32 alternating. Oracle: no panic in update() or last().", ultra_cases, ultra_check("release")).with_shard(16),
        Clause::enumerated("C15", "C15/ultra/relassert", "The same runs under debug assertions and overflow checks (an overflowing narrowed counter panics there).", ultra_cases, ultra_check("relassert")).with_profile("relassert").with_shard(16),
        Clause::generated("C15", "C15/chains/release", rule_chain, 6000, 200_000, chain_cases("release"), chain_check("release")).with_shard(500),
        Clause::generated("C15", "C15/chains/relassert", rule_chain, 6000, 200_000, chain_cases("relassert"), chain_check("relassert")).with_profile("relassert").with_shard(500),
    ]
}

/// entry point for the libFuzzer targets (profile = the profile this crate was compiled with)
pub fn fuzz_check(case: &Case) -> Verdict {
    let profile: &'static str = if cfg!(debug_assertions) { "relassert" } else { "release" };
    chain_check(profile)(case)
}
