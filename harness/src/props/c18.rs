//! C18 — Bounded memory: state size does not grow with stream length.
//! A counting global allocator (installed by the vcheck binary) attributes live heap bytes to the view built and driven on this
//! thread; readings at stream lengths L, 4L and 16L must agree (a VecDeque that has reached its window length never reallocates;
//! an append-only buffer grows by >= 8 L bytes), and stay below a bound in the window lengths alone.
use super::c01::{inners, outers};
use super::c15::chain_strategy;
use crate::alloc::{thread_live, thread_total};
use crate::catalog::*;
use crate::core::*;
use crate::gen;
use crate::runner::guarded;
use proptest::prelude::*;
use sliding_features::View;

pub const STREAMS: [&str; 7] = ["noise", "rising", "constant", "falling", "zeros_then_noise", "staircase(plateaus_and_new_highs)", "alternating"];

fn value(kind: i64, t: usize, st: &mut u64, positive: bool) -> f64 {
    let r = gen::splitmix(st);
    let v = match kind {
        0 => (r % 20001) as f64 / 10.0 - 1000.0,
        1 => 10.0 + t as f64 * 0.25,
        2 => 123.5,
        3 => 1.0e7 - t as f64 * 0.25,
        4 => {
            if (t / 97) % 2 == 0 {
                0.0
            } else {
                (r % 2001) as f64 - 1000.0
            }
        }
        5 => 100.0 + (t / 13) as f64,
        _ => {
            if t % 2 == 0 {
                50.0
            } else {
                -50.0
            }
        }
    };
    if positive {
        v.abs().max(0.5)
    } else {
        v
    }
}

struct Reading {
    l1: isize,
    l4: isize,
    l16: isize,
}
fn measure(spec: &Spec, kind: i64, l: usize, seed: u64) -> Result<Reading, String> {
    measure_with(spec, kind, l, seed, false)
}
/// `muted`: every leaf is one that never delivers anything (the view is updated but handed no value)
fn measure_with(spec: &Spec, kind: i64, l: usize, seed: u64, muted: bool) -> Result<Reading, String> {
    let positive = spec.needs_positive_input();
    guarded(|| {
        let before = thread_live();
        let mut v = if muted { build_muted::<f64>(spec) } else { build::<f64>(spec) };
        let mut st = seed | 1;
        let mut t = 0usize;
        let mut feed = |v: &mut BoxView<f64>, upto: usize, t: &mut usize| {
            while *t < upto {
                v.update(value(kind, *t, &mut st, positive));
                let _ = v.last();
                *t += 1;
            }
        };
        feed(&mut v, l, &mut t);
        let l1 = thread_live() - before;
        feed(&mut v, 4 * l, &mut t);
        let l4 = thread_live() - before;
        feed(&mut v, 16 * l, &mut t);
        let l16 = thread_live() - before;
        drop(v);
        Reading { l1, l4, l16 }
    })
}

fn check(case: &Case) -> Verdict {
    let spec = case.spec();
    let kind = case.ints[0];
    let mult = case.ints.get(1).copied().unwrap_or(1) as usize;
    if thread_total() == 0 {
        // the counting allocator is not the global allocator of this binary: a harness error, never a pass
        panic!("{}: counting allocator not installed", crate::q::Q_UNIMPL_MARKER);
    }
    let sn = spec.sum_windows();
    let l = (8 * sn + 256) * mult;
    let muted = case.ints.get(2).copied().unwrap_or(0) == 1;
    let r = match measure_with(spec, kind, l, 0xC18 + sn as u64, muted) {
        Ok(r) => r,
        Err(p) if p.contains("Can compare elements") => return Verdict::Discard("a NaN reached Min/Max (left the domain)".into()),
        Err(p) => return Verdict::fail(format!("C18|{}|panic", spec.name()), format!("{}: {p}", spec.show())),
    };
    let sname = if muted { "never-delivered" } else { STREAMS[kind as usize] };
    let cap = (64 * 8 * sn + 4096) as isize;
    let who = culprit(spec, kind, l);
    if r.l4 > r.l1 + 256 || r.l16 > r.l1 + 256 {
        return Verdict::fail(format!("C18/growth|{who}"), format!("{} on a {sname} stream: live heap owned by the view is {} B after L = {l} values, {} B after 4L, {} B after 16L: it grows with the stream length", spec.show(), r.l1, r.l4, r.l16));
    }
    if r.l16 > cap {
        return Verdict::fail(format!("C18/bound|{who}"), format!("{} on a {sname} stream: {} B live after 16L = {} values exceeds 64 x 8 x (sum of windows = {sn}) + 4 KiB = {cap} B", spec.show(), r.l16, 16 * l));
    }
    Verdict::pass(sn >= 1, vec![sname.to_string()])
}

/// which node grows: re-measure every sub-tree on its own (only on the failure path)
fn culprit(spec: &Spec, kind: i64, l: usize) -> String {
    fn walk(s: &Spec, kind: i64, l: usize, out: &mut Vec<String>) {
        let mut child_grows = false;
        for c in s.children() {
            let before = out.len();
            walk(c, kind, l, out);
            if out.len() > before {
                child_grows = true;
            }
        }
        if !child_grows {
            if let Ok(r) = measure(s, kind, l.min(4096), 7) {
                if r.l4 > r.l1 + 256 || r.l16 > r.l1 + 256 || r.l16 > (64 * 8 * s.sum_windows() + 4096) as isize {
                    out.push(s.name().to_string());
                }
            }
        }
    }
    let mut v = vec![];
    walk(spec, kind, l, &mut v);
    v.sort();
    v.dedup();
    if v.is_empty() {
        spec.name().to_string()
    } else {
        v.join("+")
    }
}

fn enumerate(tier: Tier) -> Vec<Case> {
    let mut out = vec![];
    // every view type (with its secondary-parameter grid) at N in {1,2,3,5,16,64,257}, every stream class
    for n in [1usize, 2, 3, 5, 16, 64, 257] {
        let mut specs = unary_grid(n);
        if n > 1 {
            specs.retain(|s| !s.own_windows().is_empty());
        }
        for spec in specs {
            if matches!(spec, Spec::CyberCycle(_, k) if k < 3) || matches!(spec, Spec::Pfe(_, _, k) if k < 3) {
                continue; // these panic (C15)
            }
            for kind in 0..STREAMS.len() as i64 {
                out.push(Case { spec: Some(spec.clone()), ints: vec![kind, tier.pick(1, 8)], a: Rat(1, 1), ..Default::default() });
            }
        }
    }
    // every view over a leaf that never delivers anything: being updated without being handed a value must not allocate either
    for n in [1usize, 5, 64] {
        let mut specs = unary_grid(n);
        if n > 1 {
            specs.retain(|s| !s.own_windows().is_empty());
        }
        for spec in specs {
            if matches!(spec, Spec::CyberCycle(_, k) if k < 3) || matches!(spec, Spec::Pfe(_, _, k) if k < 3) {
                continue; // these panic (C15)
            }
            out.push(Case { spec: Some(spec), ints: vec![0, tier.pick(1, 8), 1], a: Rat(1, 1), ..Default::default() });
        }
    }
    // every (wrapper, inner) pair at one window pair, three stream classes rotating
    let mut k = 0i64;
    for inner in inners(4) {
        for outer in outers(&inner, 5) {
            for j in 0..tier.pick(2, 7) {
                out.push(Case { spec: Some(outer.clone()), ints: vec![(k + j) % STREAMS.len() as i64, 1], a: Rat(1, 1), ..Default::default() });
            }
            k += 1;
        }
    }
    out
}

fn chains(tier: Tier) -> BoxedStrategy<Case> {
    (chain_strategy(tier.pick(24, 64)), 0i64..STREAMS.len() as i64).prop_map(|(spec, kind)| Case { spec: Some(spec), ints: vec![kind, 1], a: Rat(1, 1), ..Default::default() }).boxed()
}
fn chain_check(case: &Case) -> Verdict {
    let spec = case.spec();
    if !spec.domain_ok_positive_input() && !spec.domain_ok_signed_input() {
        return Verdict::Discard("tree outside the documented input domain".into());
    }
    check(case)
}

pub fn clauses() -> Vec<Clause> {
    vec![
        Clause::enumerated("C18", "C18/views_and_pairs/enumerated", "Enumerated: every view over Echo (full secondary-parameter grid) at N in {1,2,3,5,16,64,257} x 7 stream classes and over a leaf that never delivers a value (N in {1,5,64}: a view that is updated but handed nothing must not allocate either) (noise, rising ramp, constant, falling ramp, zero stretches, staircase of plateaus and new highs, alternating), and every (wrapper, inner) pair of the catalogue at windows (5, 4) x 2 classes (thorough: all 7). The chain is built and driven on one thread; live bytes attributed to it are read after L = 8 sum(N) + 256 values (thorough 8 x that), after 4L and after 16L. Oracle: live(4L), live(16L) <= live(L) + 256 B and live <= 64 x 8 x sum(N) + 4 KiB. Non-trivial: the tree has a window.", enumerate, check).with_shard(40),
        Clause::generated("C18", "C18/chains/generated", "Generated two-level trees with random windows (1..24, thorough ..64) and parameters, random stream class. Same oracle.", 1500, 30_000, chains, chain_check).with_shard(50),
    ]
}
