//! C17 — Views are deterministic values: last() is pure and clones are independent.
use super::c01::{inners, outers, same_opt, Same};
use super::c15::chain_strategy;
use crate::catalog::*;
use crate::core::*;
use crate::exec::*;
use crate::gen::{self, StreamCfg};
use crate::runner::guarded;
use proptest::prelude::*;
use sliding_features::View;

/// (a) twins, interleaved and one-after-the-other; (b) extra last() calls; (c) clone at position p, same and divergent continuations
fn run<T: Same>(spec: &Spec, xs: &[T], ys: &[T], p: usize, pattern: u64) -> Result<(bool, bool), String> {
    // Ok((clone exercised, outputs non-constant))
    // (a) interleaved twins
    let mut t1 = build::<T>(spec);
    let mut t2 = build::<T>(spec);
    let mut outs: Vec<Option<T>> = Vec::with_capacity(xs.len());
    for (k, x) in xs.iter().enumerate() {
        t1.update(*x);
        t2.update(*x);
        let (a, b) = (t1.last(), t2.last());
        if !same_opt(a, b) {
            return Err(format!("twins|step {k}: two instances built and fed alike report {a:?} and {b:?}"));
        }
        outs.push(a);
    }
    // sequential twin
    let mut t3 = build::<T>(spec);
    for (k, x) in xs.iter().enumerate() {
        t3.update(*x);
        if !same_opt(t3.last(), outs[k]) {
            return Err(format!("twins|step {k}: a third instance fed later reports {:?} instead of {:?}", t3.last(), outs[k]));
        }
    }
    // (b) extra last() calls at generated positions
    let mut t4 = build::<T>(spec);
    let mut st = pattern | 1;
    let _ = t4.last();
    for (k, x) in xs.iter().enumerate() {
        t4.update(*x);
        let calls = gen::splitmix(&mut st) % 6;
        let first = t4.last();
        for _ in 0..calls {
            let again = t4.last();
            if !same_opt(first, again) {
                return Err(format!("purity|step {k}: repeated last() calls disagree: {first:?} then {again:?}"));
            }
        }
        if !same_opt(first, outs[k]) {
            return Err(format!("purity|step {k}: an instance on which last() is called {calls} extra times reports {first:?}, its twin {:?}", outs[k]));
        }
    }
    // (b') "any number of times" includes zero: an instance that is polled only now and then must agree, whenever it is
    // polled, with the twin that was polled after every update (a last() that completes work update() deferred is not pure)
    let mut t5 = build::<T>(spec);
    let mut st = pattern.wrapping_mul(0x9E3779B97F4A7C15) | 1;
    for (k, x) in xs.iter().enumerate() {
        t5.update(*x);
        let poll = gen::splitmix(&mut st) % 4 == 0 || k + 1 == xs.len();
        if poll {
            let got = t5.last();
            if !same_opt(got, outs[k]) {
                return Err(format!("purity|step {k}: an instance whose last() had not been called for some updates reports {got:?}, its twin polled after every update {:?}", outs[k]));
            }
        }
    }
    // (c) clones
    if !spec.clonable() {
        return Ok((false, distinct(&outs)));
    }
    let p = p.min(xs.len());
    let mut orig = build::<T>(spec);
    for x in &xs[..p] {
        orig.update(*x);
    }
    let Some(mut cl) = orig.try_clone() else { return Ok((false, distinct(&outs))) };
    if !same_opt(orig.last(), cl.last()) {
        return Err(format!("clone|a clone taken after {p} updates reports {:?}, the original {:?}", cl.last(), orig.last()));
    }
    // same continuation: both follow the never-cloned twin
    let mut cl2 = orig.try_clone().unwrap();
    for (k, x) in xs[p..].iter().enumerate() {
        cl2.update(*x);
        if !same_opt(cl2.last(), outs[p + k]) {
            return Err(format!("clone|clone taken after {p} updates and fed the same continuation reports {:?} at step {}, the original line {:?}", cl2.last(), p + k, outs[p + k]));
        }
    }
    // divergent continuations: clone gets ys, original gets the rest of xs
    let mut fresh = build::<T>(spec);
    for x in &xs[..p] {
        fresh.update(*x);
    }
    let n = (xs.len() - p).max(ys.len());
    for k in 0..n {
        // feed the clone first, then the original: feeding one must never affect the other
        if let Some(y) = ys.get(k) {
            cl.update(*y);
            fresh.update(*y);
            if !same_opt(cl.last(), fresh.last()) {
                return Err(format!("clone|clone (taken after {p} updates) fed a different continuation reports {:?} at its step {k}; a fresh instance fed prefix + that continuation reports {:?}", cl.last(), fresh.last()));
            }
        }
        if let Some(x) = xs.get(p + k) {
            orig.update(*x);
            if !same_opt(orig.last(), outs[p + k]) {
                return Err(format!("clone|after its clone (taken after {p} updates) was fed different values, the original reports {:?} at step {}, a never-cloned twin {:?}", orig.last(), p + k, outs[p + k]));
            }
        }
    }
    Ok((true, distinct(&outs)))
}
fn distinct<T: Same>(o: &[Option<T>]) -> bool {
    let mut s = std::collections::HashSet::new();
    for v in o.iter().flatten() {
        s.insert(v.key());
    }
    s.len() >= 2
}

fn check(case: &Case) -> Verdict {
    let spec = case.spec();
    let scalar = case.ints[0];
    let p = case.ints[1] as usize;
    let pattern = case.ints[2] as u64;
    let sc = ["f64", "f32"][scalar as usize];
    let positive = case.xs.iter().chain(case.ys.iter()).all(|r| r.0 > 0);
    if !(if positive { spec.domain_ok_positive_input() } else { spec.domain_ok_signed_input() }) {
        return Verdict::Discard("tree outside the documented input domain".into());
    }
    let r = if scalar == 0 { guarded(|| run::<f64>(spec, &f64s(&case.xs), &f64s(&case.ys), p, pattern)) } else { guarded(|| run::<f32>(spec, &f32s(&case.xs), &f32s(&case.ys), p, pattern)) };
    match r {
        Err(pn) if pn.contains("Can compare elements") => Verdict::Discard("a NaN reached Min/Max (left the domain)".into()),
        Err(pn) => Verdict::fail(format!("C17/{}/{sc}|panic", spec.name()), format!("{}: {pn}; input {}", spec.show(), show_rats(&case.xs))),
        Ok(Err(m)) => {
            let (kind, rest) = m.split_once('|').unwrap_or(("value", &m));
            Verdict::fail(format!("C17/{}/{sc}|{kind}", spec.name()), format!("{}: {rest}; input {} / continuation {}", spec.show(), show_rats(&case.xs), show_rats(&case.ys)))
        }
        Ok(Ok((cloned, nonconst))) => {
            let mut l = vec![sc.to_string()];
            if !cloned {
                l.push("clone_skipped(Add has no Clone)".into());
            }
            let n = spec.max_window();
            let after_ready = p > n && p < case.xs.len();
            if after_ready {
                l.push("clone_after_window_filled".into());
            }
            if p > 2 * n {
                l.push("clone_after_2N".into());
            }
            Verdict::pass(nonconst && (!cloned || (after_ready && case.xs[p.min(case.xs.len())..] != case.ys[..])), l)
        }
    }
}

/// ultra-long runs (past 2^16 and 2^17 updates) of every single view, cloned after 70 000 updates: ints = [seed, len, shape]
fn ultra_cases(tier: Tier) -> Vec<Case> {
    let len = tier.pick(135_000usize, 1_100_000usize);
    let mut out = vec![];
    for n in [3usize, 16] {
        for (w, o) in outers(&Spec::Echo, n).into_iter().enumerate() {
            let shape = ((w + n) % 4) as i64;
            out.push(Case { spec: Some(o), ints: vec![(0xC17_0000 + 977 * w + 13 * n) as i64, len as i64, shape], a: Rat(1, 1), ..Default::default() });
        }
    }
    out
}
fn ultra_check(case: &Case) -> Verdict {
    let spec = case.spec();
    let (seed, len, shape) = (case.ints[0] as u64, case.ints[1] as usize, case.ints[2]);
    let positive = spec.needs_positive_input();
    if !(if positive { spec.domain_ok_positive_input() } else { spec.domain_ok_signed_input() }) {
        return Verdict::Discard("tree outside the documented input domain".into());
    }
    let conv = |k: i64| (if positive { k.abs().max(1) } else { k }) as f64 / 8.0;
    let xs: Vec<f64> = gen::ultra_stream(seed, len, shape).into_iter().map(conv).collect();
    let ys: Vec<f64> = gen::ultra_stream(seed ^ 0xABCDEF, 400, 0).into_iter().map(conv).collect();
    let p = 70_000.min(len / 2);
    match guarded(|| run::<f64>(spec, &xs, &ys, p, seed)) {
        Err(pn) if pn.contains("Can compare elements") => Verdict::Discard("a NaN reached Min/Max (left the domain)".into()),
        Err(pn) => Verdict::fail(format!("C17/{}/f64|panic", spec.name()), format!("{}: {pn} (stream: seed {seed}, len {len}, shape {shape}, grid 1/8)", spec.show())),
        Ok(Err(m)) => {
            let (kind, rest) = m.split_once('|').unwrap_or(("value", &m));
            Verdict::fail(format!("C17/{}/f64|{kind}", spec.name()), format!("{}: {rest} (stream: seed {seed}, len {len}, shape {shape}, grid 1/8; clone after {p} updates, continuation ultra_stream(seed ^ 0xABCDEF, 400, 0))", spec.show()))
        }
        Ok(Ok((cloned, nonconst))) => Verdict::pass(nonconst, vec![format!("shape_{shape}"), if cloned { "cloned_after_70000".into() } else { "clone_skipped(Add has no Clone)".to_string() }]),
    }
}

fn with_streams(tree: BoxedStrategy<Spec>) -> BoxedStrategy<Case> {
    (tree, 0i64..2, any::<u32>())
        .prop_flat_map(|(spec, scalar, pattern)| {
            let n = spec.max_window().max(1);
            let mut cfg = StreamCfg::new(n).scale(Rat(1, 8)).kmax(2000);
            if spec.needs_positive_input() {
                cfg = cfg.positive();
            }
            let total = 6 * n + 24;
            (gen::stream_nz(cfg.len(0, total)), gen::stream(cfg.len(0, 3 * n + 8)), 0usize..=total).prop_map(move |(xs, ys, p)| {
                let p = p * (xs.len() + 1) / (total + 1);
                Case { spec: Some(spec.clone()), xs, ys, ints: vec![scalar, p as i64, pattern as i64], a: Rat(1, 1), ..Default::default() }
            })
        })
        .boxed()
}

fn singles() -> BoxedStrategy<Spec> {
    // every view type over Echo, windows 1..40 (clone positions beyond 2N need long runs of a single view)
    (0usize..34, 1usize..=40).prop_map(|(w, n)| { let o = outers(&Spec::Echo, n); o[w % o.len()].clone() }).boxed()
}
fn pairs() -> BoxedStrategy<Spec> {
    (0usize..44, 0usize..34, 1usize..=12, 1usize..=12).prop_map(|(i, w, n_in, n_out)| { let ins = inners(n_in); let inner = ins[i % ins.len()].clone(); let o = outers(&inner, n_out); o[w % o.len()].clone() }).boxed()
}

pub fn clauses() -> Vec<Clause> {
    let o = "Oracles, bit-exact in f64 and f32: (a) two instances built alike and fed alike step by step, and a third fed afterwards, agree at every step; (b) an instance on which last() is called 0-5 extra times after each update (and once before the first) agrees with its twin and with itself, and so does an instance that is polled only after every fourth update on average; (c) a clone taken after p updates equals the original at once, follows the never-cloned line when fed the same continuation, and when clone and original are fed different continuations (clone first) the clone equals a fresh instance fed prefix + its continuation while the original equals the never-cloned twin. Trees containing Add (no Clone impl) skip (c), counted. Non-trivial: outputs non-constant and, where cloned, p after the window filled, before the end, continuations differ.";
    vec![
        Clause::generated("C17", "C17/singles", format!("every view type over Echo, N in 1..40, stream of 0..6N+24 values, clone position uniform over the stream, divergent continuation of 0..3N+8 values. {o}"), 8000, 200_000, |_t| with_streams(singles()), check).with_shard(500),
        Clause::generated("C17", "C17/pairs", format!("every (wrapper, inner) pair of the catalogue with windows 1..12. {o}"), 8000, 200_000, |_t| with_streams(pairs()), check).with_shard(500),
        Clause::enumerated("C17", "C17/ultra/enumerated", "Enumerated: every view over Echo at N in {3, 16}, 135 000 values (thorough 1.1e6; past 2^16 and 2^17 updates) on the 1/8 grid (four stream shapes), f64; twins, repeated and sparse last() calls over the whole run, clone taken after 70 000 updates and fed the same and a different continuation. Same oracles.", ultra_cases, ultra_check).with_shard(8),
        Clause::generated("C17", "C17/chains", format!("random two-level trees incl. binary combinators. {o}"), 4000, 100_000, |t: Tier| with_streams(chain_strategy(t.pick(16, 48))), check).with_shard(500),
    ]
}

/// entry point for the libFuzzer targets: the clause's own oracle on a decoded case
pub fn fuzz_check(case: &Case) -> Verdict {
    check(case)
}
