//! C01 — Chaining: a wrapper sees exactly its inner view's outputs.
//! Oracle 1 (decomposition): chain B(A) vs stand-alone A + stand-alone B(Echo) fed A.last() only when it is Some; bit-identical.
//! Oracle 2 (delivery): every leaf is a Probe; after the k-th update every probe has logged exactly k values, the last being x_k.
use super::c15::{chain_strategy, safe_min_window};
use crate::catalog::*;
use crate::core::*;
use crate::exec::*;
use crate::gen::{self, StreamCfg};
use crate::q::Q;
use crate::runner::guarded;
use proptest::prelude::*;
use sliding_features::View;

pub trait Same: Scalar {
    fn same(self, o: Self) -> bool;
    fn key(self) -> u64;
}
impl Same for f64 {
    fn same(self, o: f64) -> bool {
        self.to_bits() == o.to_bits()
    }
    fn key(self) -> u64 {
        self.to_bits()
    }
}
impl Same for f32 {
    fn same(self, o: f32) -> bool {
        self.to_bits() == o.to_bits()
    }
    fn key(self) -> u64 {
        self.to_bits() as u64
    }
}
impl Same for Q {
    fn same(self, o: Q) -> bool {
        let (a, b) = (self.extract(), o.extract());
        a == b
    }
    fn key(self) -> u64 {
        use std::hash::{Hash, Hasher};
        let mut h = std::collections::hash_map::DefaultHasher::new();
        format!("{:?}", self.extract()).hash(&mut h);
        h.finish()
    }
}
pub fn same_opt<T: Same>(a: Option<T>, b: Option<T>) -> bool {
    match (a, b) {
        (None, None) => true,
        (Some(x), Some(y)) => x.same(y),
        _ => false,
    }
}

/// the inner catalogue: Echo, Constant, every unary view over Echo (two window lengths), binary combinators over pairs
pub fn inners(n: usize) -> Vec<Spec> {
    let mut v = vec![Spec::Echo, Spec::Constant(3.5)];
    for s in unary_over(&Spec::Echo, n) {
        let need = safe_min_window(s.name());
        if n >= need {
            v.push(s);
        } else {
            let alt = unary_over(&Spec::Echo, need);
            v.push(alt.into_iter().find(|a| a.name() == s.name()).unwrap());
        }
    }
    v.extend(binary_over(&Spec::Sma(echo(), 3), &Spec::Ema(echo(), n.max(2))));
    v.extend(binary_over(&Spec::Echo, &Spec::Constant(2.0)));
    v
}
pub fn outers(inner: &Spec, n: usize) -> Vec<Spec> {
    unary_over(inner, n)
        .into_iter()
        .map(|s| {
            let need = safe_min_window(s.name());
            if n >= need {
                s
            } else {
                unary_over(inner, need).into_iter().find(|a| a.name() == s.name()).unwrap()
            }
        })
        .collect()
}

struct Outcome {
    distinct_outputs: usize,
    inner_had_none: bool,
}

fn decompose<T: Same>(spec: &Spec, xs: &[T]) -> Result<Outcome, String> {
    let (outer_echo, inner) = outer_over_echo(spec).ok_or_else(|| "not a unary wrapper".to_string())?;
    let mut chain = build::<T>(spec);
    let mut a = build::<T>(&inner);
    let mut b = build::<T>(&outer_echo);
    let mut seen = std::collections::HashSet::new();
    let mut inner_none = false;
    for (k, x) in xs.iter().enumerate() {
        chain.update(*x);
        a.update(*x);
        match a.last() {
            Some(v) => b.update(v),
            None => inner_none = true,
        }
        let (c, d) = (chain.last(), b.last());
        if !same_opt(c, d) {
            return Err(format!("step {k}: chain reports {c:?} but inner -> wrapper-over-Echo reports {d:?} (inner output {:?})", a.last()));
        }
        if let Some(v) = c {
            seen.insert(v.key());
        }
    }
    Ok(Outcome { distinct_outputs: seen.len(), inner_had_none: inner_none })
}

fn delivery<T: Same>(spec: &Spec, xs: &[T]) -> Result<usize, String> {
    let (mut v, logs) = build_probed::<T>(spec);
    for (k, x) in xs.iter().enumerate() {
        v.update(*x);
        for (li, l) in logs.iter().enumerate() {
            let l = l.borrow();
            if l.len() != k + 1 {
                return Err(format!("after update {} leaf #{li} has received {} values (expected exactly {})", k + 1, l.len(), k + 1));
            }
            if !l[k].same(*x) {
                return Err(format!("update {}: leaf #{li} received {:?} instead of the raw input {:?}", k + 1, l[k], x));
            }
        }
    }
    Ok(logs.len())
}

fn presence<T: Same>(spec: &Spec, xs: &[T]) -> Result<(), String> {
    // a combining node reports a value only when both children do
    let (a, b) = match spec {
        Spec::Add(a, b) | Spec::Subtract(a, b) | Spec::Multiply(a, b) | Spec::Divide(a, b) => (a, b),
        _ => return Ok(()),
    };
    let mut v = build::<T>(spec);
    let (mut ta, mut tb) = (build::<T>(a), build::<T>(b));
    for (k, x) in xs.iter().enumerate() {
        v.update(*x);
        ta.update(*x);
        tb.update(*x);
        let both = ta.last().is_some() && tb.last().is_some();
        if v.last().is_some() != both {
            return Err(format!("step {k}: combining node reports {:?} while its children report {:?} / {:?}", v.last(), ta.last(), tb.last()));
        }
    }
    Ok(())
}

fn check(case: &Case) -> Verdict {
    let spec = case.spec();
    let scalar = case.ints.first().copied().unwrap_or(0);
    let sc = ["f64", "f32", "Q"][scalar as usize];
    let positive = case.xs.iter().all(|r| r.0 > 0);
    if !(if positive { spec.domain_ok_positive_input() } else { spec.domain_ok_signed_input() }) {
        return Verdict::Discard("tree outside the documented input domain".into());
    }
    macro_rules! run {
        ($t:ty, $xs:expr) => {{
            let xs: Vec<$t> = $xs;
            guarded(|| {
                let dl = delivery::<$t>(spec, &xs)?;
                presence::<$t>(spec, &xs)?;
                let oc = if outer_over_echo(spec).is_some() { Some(decompose::<$t>(spec, &xs)?) } else { None };
                Ok::<_, String>((dl, oc))
            })
        }};
    }
    let r = match scalar {
        0 => run!(f64, f64s(&case.xs)),
        1 => run!(f32, f32s(&case.xs)),
        _ => run!(Q, bigs(&case.xs).iter().map(qv).collect()),
    };
    let outer = spec.name();
    match r {
        Err(p) if p.contains("Can compare elements") => Verdict::Discard("a NaN reached Min/Max (left the domain)".into()),
        Err(p) => Verdict::fail(format!("C01/{outer}/{sc}|panic"), format!("{}: {p}; input {}", spec.show(), show_rats(&case.xs))),
        Ok(Err(m)) => {
            let kind = if m.contains("leaf #") { "delivery" } else if m.contains("combining node") { "presence" } else { "decomposition" };
            Verdict::fail(format!("C01/{outer}/{sc}|{kind}"), format!("{}: {m}; input {}", spec.show(), show_rats(&case.xs)))
        }
        Ok(Ok((leaves, oc))) => {
            let mut l = vec![sc.to_string(), format!("depth_{}", spec.depth())];
            let inner_is_echo = outer_over_echo(spec).map(|(_, i)| i == Spec::Echo).unwrap_or(false);
            let mut nt = !inner_is_echo && case.xs.len() > spec.max_window();
            if let Some(o) = oc {
                if o.inner_had_none {
                    l.push("inner_warmup_seen".into());
                }
                nt = nt && o.distinct_outputs >= 2;
            }
            if leaves >= 2 {
                l.push("several_leaves".into());
            }
            Verdict::pass(nt, l)
        }
    }
}

/// ultra-long runs (past 2^16 and 2^17 updates): every wrapper over Sma(4) and over Roc(3); ints = [0, seed, len, shape]
fn ultra_cases(tier: Tier) -> Vec<Case> {
    let len = tier.pick(135_000usize, 1_100_000usize);
    let mut out = vec![];
    for (ii, inner) in [Spec::Sma(echo(), 4), Spec::Roc(echo(), 3)].into_iter().enumerate() {
        for (w, o) in outers(&inner, 5).into_iter().enumerate() {
            out.push(Case { spec: Some(o), ints: vec![0, (0xC01_0000 + 613 * w + ii) as i64, len as i64, ((w + ii) % 4) as i64], a: Rat(1, 1), ..Default::default() });
        }
    }
    out
}
fn ultra_check(case: &Case) -> Verdict {
    let spec = case.spec();
    let (seed, len, shape) = (case.ints[1] as u64, case.ints[2] as usize, case.ints[3]);
    // positive inputs throughout: every tree of this clause is then inside its documented domain or discarded
    if !spec.domain_ok_positive_input() {
        return Verdict::Discard("tree outside the documented input domain".into());
    }
    let xs: Vec<f64> = gen::ultra_stream(seed, len, shape).into_iter().map(|k| k.abs().max(1) as f64 / 8.0).collect();
    let r = guarded(|| {
        let dl = delivery::<f64>(spec, &xs)?;
        presence::<f64>(spec, &xs)?;
        let oc = decompose::<f64>(spec, &xs)?;
        Ok::<_, String>((dl, oc))
    });
    let outer = spec.name();
    let ctx = format!("(stream: |ultra_stream(seed {seed}, len {len}, shape {shape})| max 1, grid 1/8)");
    match r {
        Err(p) if p.contains("Can compare elements") => Verdict::Discard("a NaN reached Min/Max (left the domain)".into()),
        Err(p) => Verdict::fail(format!("C01/{outer}/f64|panic"), format!("{}: {p} {ctx}", spec.show())),
        Ok(Err(m)) => {
            let kind = if m.contains("leaf #") { "delivery" } else if m.contains("combining node") { "presence" } else { "decomposition" };
            Verdict::fail(format!("C01/{outer}/f64|{kind}"), format!("{}: {m} {ctx}", spec.show()))
        }
        Ok(Ok((_, oc))) => Verdict::pass(oc.distinct_outputs >= 2, vec![format!("shape_{shape}")]),
    }
}

fn enumerate(tier: Tier) -> Vec<Case> {
    let mut out = vec![];
    let streams_per_pair = tier.pick(3, 24);
    for (ni, n_in) in [1usize, 4, 9].iter().enumerate() {
        for inner in inners(*n_in) {
            for n_out in [1usize, 3, 7] {
                for outer in outers(&inner, n_out) {
                    for s in 0..streams_per_pair {
                        let positive = outer.needs_positive_input();
                        let mut st = (ni * 1000 + n_out * 100 + s) as u64 ^ 0xC01;
                        let len = 3 * (n_in + n_out) + 12 + s * 5;
                        let mut cur: i64 = 800;
                        let ks: Vec<i64> = (0..len)
                            .map(|_| {
                                let r = gen::splitmix(&mut st);
                                match r % 6 {
                                    0 => {}
                                    1 => cur += (r >> 8) as i64 % 80,
                                    2 => cur -= (r >> 8) as i64 % 80,
                                    3 => cur = 400,
                                    _ => cur = (r >> 8) as i64 % 4000 - if positive { 0 } else { 2000 },
                                }
                                if positive {
                                    cur = cur.abs().max(1);
                                }
                                cur
                            })
                            .collect();
                        let scalar = (s % 2) as i64;
                        out.push(Case { spec: Some(outer.clone()), xs: gen::to_rats(&ks, Rat(1, 8)), ints: vec![scalar], a: Rat(1, 1), ..Default::default() });
                    }
                }
            }
        }
    }
    out
}

fn generated(depth3: bool) -> impl Fn(Tier) -> BoxedStrategy<Case> + Send + Sync {
    move |tier: Tier| {
        let nmax = tier.pick(16, 48);
        let tree: BoxedStrategy<Spec> = if depth3 {
            (chain_strategy(nmax), 0usize..34, 1usize..=nmax).prop_map(|(inner, w, n)| { let o = outers(&inner, n); o[w % o.len()].clone() }).boxed()
        } else {
            chain_strategy(nmax)
        };
        (tree, 0i64..3)
            .prop_flat_map(move |(spec, scalar)| {
                let n = spec.max_window().max(1);
                let mut cfg = StreamCfg::new(n).scale(Rat(1, 8)).kmax(2000).len(0, if scalar == 2 { 2 * n + 12 } else { 4 * n + 20 });
                if spec.needs_positive_input() {
                    cfg = cfg.positive();
                }
                gen::stream_nz(cfg).prop_map(move |xs| Case { spec: Some(spec.clone()), xs, ints: vec![scalar], a: Rat(1, 1), ..Default::default() })
            })
            .boxed()
    }
}

pub fn clauses() -> Vec<Clause> {
    vec![
        Clause::enumerated("C01", "C01/pairs/enumerated", "Enumerated: every unary wrapper (34) over every inner view (Echo, Constant, 34 unary views over Echo, 8 binary combinators) at window pairs {1,3,7} x {1,4,9}, 3 streams each (thorough 24), f64 and f32 alternating. Oracles: decomposition (bit-identical to stand-alone inner -> wrapper over Echo, fed only when the inner has an output), delivery (every Probe leaf logs each raw input exactly once, in order), presence (a combining node has a value iff both children do). Non-trivial: inner != Echo, stream longer than the windows, chain produced >= 2 distinct outputs.", enumerate, check).with_shard(1500),
        Clause::enumerated("C01", "C01/ultra/enumerated", "Enumerated: every unary wrapper at window 5 over Sma(4) and over Roc(3), 135 000 positive values (thorough 1.1e6; past 2^16 and 2^17 updates) on the 1/8 grid, four stream shapes, f64. Same three oracles at every step.", ultra_cases, ultra_check).with_shard(8),
        Clause::generated("C01", "C01/chains/generated", "Generated two-level trees (unary over unary, unary over binary, binary over unaries) with random windows and secondary parameters, grammar streams, scalars f64 / f32 / Q. Same three oracles. Non-trivial as above.", 8000, 300_000, generated(false), check).with_shard(500),
        Clause::generated("C01", "C01/triples/generated", "Generated three-level trees B(C(A)) / B(op(A1, A2)); the decomposition is taken at the outermost wrapper boundary. Same oracles.", 4000, 150_000, generated(true), check).with_shard(500),
    ]
}

/// entry point for the libFuzzer targets: the clause's own oracle on a decoded case
pub fn fuzz_check(case: &Case) -> Verdict {
    check(case)
}
