//! C06 — Trend indicators are true correlation measures of the window (CTI = Pearson, NET = Kendall tau, CoG formula).
use super::common::*;
use crate::catalog::*;
use crate::core::*;
use crate::exec::*;
use crate::gen::{self, StreamCfg};
use crate::refs::{self, R};
use num::traits::{One, Signed, Zero};
use proptest::prelude::*;

fn views() -> Vec<DefView> {
    vec![
        DefView { name: "CTI", mk: |n| Spec::Cti(echo(), n), reference: refs::cti, min_n: 3, irr: true, positive: false },
        DefView { name: "NET", mk: |n| Spec::Net(echo(), n), reference: refs::net, min_n: 3, irr: false, positive: false },
        DefView { name: "CenterOfGravity", mk: |n| Spec::CenterOfGravity(echo(), n), reference: refs::cog, min_n: 3, irr: false, positive: false },
    ]
}

/// streams with what the statement names: a jump located at each position of the window (in particular its oldest pair),
/// ties, windows that are monotone except for one pair, linear windows, constant windows, sum-zero windows
fn trend_strategy(mk: fn(usize) -> Spec) -> impl Fn(Tier) -> BoxedStrategy<Case> + Send + Sync {
    move |tier: Tier| {
        (gen::window(tier, 3, 24, 120), gen::dyadic_scale(), 0usize..7)
            .prop_flat_map(move |(n, sc, shape)| {
                let base = gen::stream(StreamCfg::new(n).scale(sc).len(0, 3 * n + 8));
                (base, 1i64..50, 0usize..64, -40i64..40).prop_map(move |(mut xs, amp, pos, lvl)| {
                    let start = lvl * 16 * sc.0;
                    let u = sc.0;
                    let pos = pos % n;
                    match shape {
                        1 | 2 => {
                            // strictly monotone window with unequal steps (rising for 1, falling for 2)
                            let sgn = if shape == 1 { 1 } else { -1 };
                            let mut cur = start;
                            for i in 0..(n + 2) as i64 {
                                cur += sgn * u * (1 + (i * 7 + amp) % 5);
                                xs.push(Rat(cur, sc.1));
                            }
                        }
                        3 => {
                            // arithmetic progression (linear window), slope amp (sign from lvl)
                            let slope = if lvl < 0 { -amp } else { amp } * u;
                            for i in 0..(n + 2) as i64 {
                                xs.push(Rat(start + i * slope, sc.1));
                            }
                        }
                        4 => {
                            // monotone except for one jump against the trend located at window position `pos`
                            let mut cur = start;
                            for i in 0..(n + pos + 1) as i64 {
                                cur += u * amp;
                                if i as usize == n {
                                    cur -= 3 * u * amp;
                                }
                                xs.push(Rat(cur, sc.1));
                            }
                        }
                        5 => {
                            // constant non-zero window, then a tie-rich staircase
                            let c = if start == 0 { u * 8 } else { start };
                            for _ in 0..(n + 1) {
                                xs.push(Rat(c, sc.1));
                            }
                            for i in 0..n as i64 {
                                xs.push(Rat(c + (i / 2) * u, sc.1));
                            }
                        }
                        6 => {
                            // windows summing to exactly 0 (CoG denominator)
                            for i in 0..(2 * n) as i64 {
                                xs.push(Rat(if i % 2 == 0 { amp * u } else { -amp * u }, sc.1));
                            }
                            xs.extend(std::iter::repeat(Rat(0, 1)).take(n));
                        }
                        _ => {}
                    }
                    Case::of(mk(n), xs)
                })
            })
            .boxed()
    }
}

fn labels(case: &Case, n: usize) -> (bool, Vec<String>) {
    let h = bigs(&case.xs);
    let mut l = vec![];
    let mut full = 0;
    let (mut mono, mut lin, mut flat, mut tie, mut zsum) = (false, false, false, false, false);
    for t in (n.saturating_sub(1))..h.len() {
        full += 1;
        let w = refs::window(&h, t, n);
        if w.windows(2).all(|p| p[0] < p[1]) || w.windows(2).all(|p| p[0] > p[1]) {
            mono = true;
            let d = &w[1] - &w[0];
            if w.windows(2).all(|p| &p[1] - &p[0] == d) {
                lin = true;
            }
        }
        if w.windows(2).all(|p| p[0] == p[1]) {
            flat = true;
        }
        if w.windows(2).any(|p| p[0] == p[1]) {
            tie = true;
        }
        if refs::sum(w).is_zero() {
            zsum = true;
        }
    }
    for (b, s) in [(mono, "strictly_monotone_window"), (lin, "linear_window"), (flat, "flat_window"), (tie, "tie_in_window"), (zsum, "zero_sum_window")] {
        if b {
            l.push(s.to_string());
        }
    }
    (full >= 3 && case.xs.len() > n, l)
}

fn wrap_labels(inner: impl Fn(&Case) -> Verdict + Send + Sync) -> impl Fn(&Case) -> Verdict + Send + Sync {
    move |case: &Case| match inner(case) {
        Verdict::Pass { .. } => {
            let n = case.spec().own_windows()[0];
            let (nt, l) = labels(case, n);
            Verdict::pass(nt, l)
        }
        other => other,
    }
}

/// metamorphic: negation flips CTI and NET; a strictly increasing re-labelling of the values leaves NET unchanged
fn metamorphic(name: &'static str, relabel: bool) -> impl Fn(&Case) -> Verdict + Send + Sync {
    metamorphic_m(name, if relabel { 1 } else { 0 })
}
/// mode 0: x -> -x; 1: x -> x^3 + x; 2: x -> x * 2^e, e in {-80, -300, -1040, 300} chosen by the stream's length (a pure function of the case)
fn metamorphic_m(name: &'static str, mode: u8) -> impl Fn(&Case) -> Verdict + Send + Sync {
    move |case: &Case| {
        let relabel = mode >= 1;
        let spec = case.spec();
        let n = spec.own_windows()[0];
        let h = bigs(&case.xs);
        let h2: Vec<R> = if mode == 2 {
            // a positive factor keeps every order relation; the units reach far below f64's epsilon and far above 2^53
            let p = pow2([-80, -300, -1040, 300][case.xs.len() % 4]);
            h.iter().map(|x| x * &p).collect()
        } else if relabel {
            // x -> x^3 + x (strictly increasing, non-linear) keeps every order relation
            h.iter().map(|x| x * x * x + x).collect()
        } else {
            h.iter().map(|x| -x).collect()
        };
        let (o1, o2) = (run_q(spec, &h), run_q(spec, &h2));
        let kind = if mode == 2 { "scale_invariance" } else if relabel { "rank_invariance" } else { "negation" };
        let mut compared = 0;
        for t in 0..h.len() {
            if t + 1 < n {
                continue;
            }
            match (&o1[t], &o2[t]) {
                (Some(a), Some(b)) => {
                    let (Some(a), Some(b)) = (a.fin(), b.fin()) else {
                        return Verdict::fail(format!("C06/{name}/{kind}/Q|value"), format!("{} step {t}: non-finite output; input {}", spec.show(), show_rats(&case.xs)));
                    };
                    let want = if relabel { a.clone() } else { -a.clone() };
                    if abs_diff(&want, b) > tol_q_irr(&R::one()) {
                        return Verdict::fail(format!("C06/{name}/{kind}/Q|value"), format!("{} step {t}: view(x) = {} but view(transformed x) = {} (expected {}); input {}", spec.show(), show(a), show(b), show(&want), show_rats(&case.xs)));
                    }
                    compared += 1;
                }
                (None, None) => {}
                _ => return Verdict::fail(format!("C06/{name}/{kind}/Q|readiness"), format!("{} step {t}: readiness differs; input {}", spec.show(), show_rats(&case.xs))),
            }
        }
        let (nt, l) = labels(case, n);
        Verdict::pass(nt && compared > 0, l)
    }
}

/// fz_single: view, N, stream; oracle = the exact definition clause
pub fn fuzz_decode(u: &mut arbitrary::Unstructured) -> Option<(String, Case)> {
    let vs = views();
    let vd = &vs[u.int_in_range(0..=vs.len() - 1).ok()?];
    let n = vd.min_n + u.int_in_range(0..=23usize).ok()?;
    let xs = crate::fuzzdec::stream(u, vd.positive, 160);
    Some((format!("C06/{}/definition/Q", vd.name), Case::of((vd.mk)(n), xs)))
}

pub fn clauses() -> Vec<Clause> {
    let rule = "N in 3..24 (thorough ..120), dyadic grid, grammar stream of 0..3N+8 values followed by one of: strictly monotone window with unequal steps, arithmetic progression, monotone window with one jump against the trend placed at a generated window position (including the oldest pair), constant window then tie-rich staircase, sum-zero window. Compared with Pearson r (values vs index), Kendall tau over all pairs with ties = 0, and the CoG formula at every full-window step. Non-trivial: at least 3 full-window steps and an eviction; labels record monotone / linear / flat / tie / zero-sum windows.";
    let mut v = vec![];
    for vd in views() {
        let name = vd.name;
        v.push(Clause::generated("C06", format!("C06/{name}/definition/Q"), rule, 2500, 60_000, trend_strategy(vd.mk), wrap_labels(def_check_q(format!("C06/{name}/definition/Q"), vd.clone()))).with_shard(150));
        v.push(Clause::generated("C06", format!("C06/{name}/long/Q"), "long histories: N in 3..10, 300..1200 values (tiled grammar stream); same definitions at every full-window step.", 40, 1000, def_strategy_long(vd.clone()), wrap_labels(def_check_q(format!("C06/{name}/long/Q"), vd.clone()))).with_shard(8));
        v.push(Clause::generated("C06", format!("C06/{name}/ultra/Q"), ULTRA_RULE, 2, 40, def_strategy_ultra(vd.clone()), def_check_ultra_q(format!("C06/{name}/ultra/Q"), vd.clone())).with_shard(2));
        v.push(Clause::generated("C06", format!("C06/{name}/chained/Q"), CHAINED_RULE, 500, 12_000, def_strategy_chained(vd.clone()), def_check_chained_q(format!("C06/{name}/chained/Q"), vd.clone())).with_shard(100));
        let unit = name != "CenterOfGravity";
        v.push(
            Clause::generated(
                "C06",
                format!("C06/{name}/definition/f64"),
                rule,
                2500,
                60_000,
                trend_strategy(vd.mk),
                wrap_labels(def_check_f64(
                    format!("C06/{name}/definition/f64"),
                    vd.clone(),
                    move |_t, r, _h, _m| if unit { f(1e-9) } else { f(1e-9) * (R::one() + r.abs()) },
                    move |t, h, n| {
                        if t + 1 < n {
                            return false;
                        }
                        let w = refs::window(h, t, n);
                        if name == "CTI" {
                            // cancellation in N*Sxx - Sx^2 when the spread is tiny against the level: decided by C07/C16, exempt here
                            let m = max_abs(w.iter());
                            let spread = refs::max_of(w) - refs::min_of(w);
                            !spread.is_zero() && spread < m * f(1e-3)
                        } else if name == "CenterOfGravity" {
                            // a nearly vanishing denominator makes the ratio ill-conditioned
                            let s = refs::sum(w).abs();
                            !s.is_zero() && s < max_abs(w.iter()) * f(1e-3)
                        } else {
                            false
                        }
                    },
                )),
            )
            .with_shard(300),
        );
    }
    v.push(Clause::generated("C06", "C06/CTI/negation/Q", "same generator; CTI(-x) = -CTI(x) on every full window", 1200, 30_000, trend_strategy(|n| Spec::Cti(echo(), n)), metamorphic("CTI", false)).with_shard(150));
    v.push(Clause::generated("C06", "C06/NET/negation/Q", "same generator; NET(-x) = -NET(x) on every full window", 1200, 30_000, trend_strategy(|n| Spec::Net(echo(), n)), metamorphic("NET", false)).with_shard(150));
    v.push(Clause::generated("C06", "C06/NET/rank_invariance/Q", "same generator; NET(x^3 + x) = NET(x): it depends only on the order of the values", 1200, 30_000, trend_strategy(|n| Spec::Net(echo(), n)), metamorphic("NET", true)).with_shard(150));
    v.push(Clause::generated("C06", "C06/NET/scale_invariance/Q", "same generator; NET(x * 2^e) = NET(x) for e in {-80, -300, -1040, 300} (chosen by the stream's length): order alone decides, whatever the unit - differences far below f64's epsilon still count as differences (the exact scalar reports f64's epsilon for T::epsilon())", 1200, 30_000, trend_strategy(|n| Spec::Net(echo(), n)), metamorphic_m("NET", 2)).with_shard(150));
    v
}
