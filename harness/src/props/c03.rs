//! C03 — Finite memory: windowed views forget everything older than the window.
//! Metamorphic oracle: two histories with arbitrary different prefixes and a common suffix; once both have consumed
//! K(view, N) suffix values their outputs are equal (exactly, in Q; up to 1e-9 x largest magnitude in f64).
use super::common::*;
use crate::catalog::*;
use crate::core::*;
use crate::exec::*;
use crate::gen::{self, StreamCfg};
use crate::q::XV;
use crate::refs::R;
use num::traits::{One, Signed, Zero};
use proptest::prelude::*;

struct ViewDef {
    name: &'static str,
    mk: fn(usize, usize) -> Spec,
    /// suffix length after which the output must not depend on the prefix
    k: fn(usize, usize) -> usize,
    min_n: usize,
    /// part of the f64 leg (views whose floating-point residue is bounded by 1e-9 x magnitude)
    f64_leg: bool,
    /// 0 none, 1 MyRSI (flat window holds), 2 Roc (zero base holds)
    exemption: u8,
}
const VIEWS: [ViewDef; 18] = [
    ViewDef { name: "Sma", mk: |n, _| Spec::Sma(echo(), n), k: |n, _| n, min_n: 1, f64_leg: true, exemption: 0 },
    ViewDef { name: "Cumulative", mk: |n, _| Spec::Cumulative(echo(), n), k: |n, _| n, min_n: 1, f64_leg: true, exemption: 0 },
    ViewDef { name: "Min", mk: |n, _| Spec::Min(echo(), n), k: |n, _| n, min_n: 1, f64_leg: true, exemption: 0 },
    ViewDef { name: "Max", mk: |n, _| Spec::Max(echo(), n), k: |n, _| n, min_n: 1, f64_leg: true, exemption: 0 },
    ViewDef { name: "Roc", mk: |n, _| Spec::Roc(echo(), n), k: |n, _| n + 1, min_n: 1, f64_leg: true, exemption: 2 },
    ViewDef { name: "WelfordOnline", mk: |n, _| Spec::WelfordOnline(echo(), n), k: |n, _| n, min_n: 1, f64_leg: false, exemption: 0 },
    ViewDef { name: "Vst", mk: |n, _| Spec::Vst(echo(), n), k: |n, _| n, min_n: 1, f64_leg: false, exemption: 0 },
    ViewDef { name: "Vsct", mk: |n, _| Spec::Vsct(echo(), n), k: |n, _| n, min_n: 1, f64_leg: false, exemption: 0 },
    ViewDef { name: "HLNormalizer", mk: |n, _| Spec::HlNormalizer(echo(), n), k: |n, _| n, min_n: 1, f64_leg: true, exemption: 0 },
    ViewDef { name: "BinaryEntropy", mk: |n, _| Spec::BinaryEntropy(echo(), n), k: |n, _| n, min_n: 1, f64_leg: true, exemption: 0 },
    ViewDef { name: "CenterOfGravity", mk: |n, _| Spec::CenterOfGravity(echo(), n), k: |n, _| n, min_n: 1, f64_leg: true, exemption: 0 },
    ViewDef { name: "CTI", mk: |n, _| Spec::Cti(echo(), n), k: |n, _| n, min_n: 1, f64_leg: true, exemption: 0 },
    ViewDef { name: "NET", mk: |n, _| Spec::Net(echo(), n), k: |n, _| n, min_n: 2, f64_leg: true, exemption: 0 },
    ViewDef { name: "Rsi", mk: |n, _| Spec::Rsi(echo(), n), k: |n, _| n + 1, min_n: 1, f64_leg: false, exemption: 0 },
    ViewDef { name: "MyRSI", mk: |n, _| Spec::MyRsi(echo(), n), k: |n, _| n + 1, min_n: 1, f64_leg: false, exemption: 1 },
    ViewDef { name: "Alma", mk: |n, _| Spec::Alma(echo(), n), k: |n, _| 2 * n, min_n: 1, f64_leg: true, exemption: 0 },
    ViewDef { name: "PFE_Sma", mk: |n, m| Spec::Pfe(echo(), Box::new(Spec::Sma(echo(), m)), n), k: |n, m| n + m - 1, min_n: 3, f64_leg: true, exemption: 0 },
    ViewDef { name: "PFE_Alma", mk: |n, m| Spec::Pfe(echo(), Box::new(Spec::Alma(echo(), m)), n), k: |n, m| n + 2 * m - 1, min_n: 3, f64_leg: true, exemption: 0 },
];

fn scale_up(xs: &[Rat], e: u32) -> Vec<Rat> {
    xs.iter().map(|r| Rat(r.0 << e, r.1)).collect()
}

/// one prefix is hundreds of values long (N <= 8): what a view did 256 or 512 updates ago must not matter either
fn strategy_long(vd: &'static ViewDef) -> BoxedStrategy<Case> {
    (vd.min_n..=vd.min_n + 7, 1usize..=4, gen::dyadic_scale())
        .prop_flat_map(move |(n, m, sc)| {
            let k = (vd.k)(n, m);
            let cfg = StreamCfg::new(n).scale(sc).kmax(512);
            (gen::stream(cfg.len(k, k + n).segs(5)), gen::long_stream(cfg, 250, 700), gen::stream(cfg.len(0, 3 * n).segs(3))).prop_map(move |(s, p1, p2)| Case { spec: Some((vd.mk)(n, m)), xs: p1, ys: p2, zs: s, a: Rat(1, 1), b: Rat(0, 1), ints: vec![k as i64, n as i64], ..Default::default() })
        })
        .boxed()
}

/// one prefix is 135 000 values long (thorough 1.1e6; past 2^16 and 2^17 updates), derived in the check from ints = [K, N, seed, len, shape]
fn strategy_ultra(vd: &'static ViewDef, exact: bool) -> impl Fn(Tier) -> BoxedStrategy<Case> + Send + Sync {
    move |tier: Tier| {
        (prop_oneof![3 => vd.min_n..=vd.min_n + 7, 1 => 9usize..=40], 1usize..=4, any::<u64>(), 0i64..4)
            .prop_flat_map(move |(n, m, seed, shape)| {
                let k = (vd.k)(n, m);
                let cfg = StreamCfg::new(n).scale(Rat(1, 8)).kmax(1 << 20);
                (gen::stream(cfg.len(k, k + n).segs(5)), gen::stream(cfg.len(0, 3 * n).segs(3))).prop_map(move |(s, p2)| Case { spec: Some((vd.mk)(n, m)), xs: vec![], ys: p2, zs: s, a: Rat(1, 1), b: Rat(0, 1), ints: vec![k as i64, n as i64, (seed >> 1) as i64, (if exact { 135_000 } else { tier.pick(135_000, 1_100_000) }) as i64, shape], ..Default::default() })
            })
            .boxed()
    }
}

/// the view over another windowed view (Sma, Max, Min or Cumulative of window M) instead of Echo: the chain forgets everything
/// older than K + M - 1 raw values (the inner view's last K outputs are functions of those). ints = [K + M - 1, N]
fn strategy_chained(vd: &'static ViewDef) -> impl Fn(Tier) -> BoxedStrategy<Case> + Send + Sync {
    move |tier: Tier| {
        (gen::window(tier, vd.min_n, 12, 40), 2usize..=6, 0usize..4, gen::dyadic_scale(), 0u32..=20, 0usize..3)
            .prop_flat_map(move |(n, mi, which, sc, e1, mode)| {
                let inner = [Spec::Sma(echo(), mi), Spec::Max(echo(), mi), Spec::Min(echo(), mi), Spec::Cumulative(echo(), mi)][which].clone();
                let k = (vd.k)(n, 1) + mi - 1;
                let spec = rebase(&(vd.mk)(n, 1), &inner);
                let suffix = gen::stream(StreamCfg::new(n).scale(sc).len(k, k + n).segs(5));
                let p1 = gen::stream(StreamCfg::new(n).scale(sc).len(1, 4 * n + 3).segs(4));
                let p2 = gen::stream(StreamCfg::new(n).scale(sc).len(0, 4 * n + 3).segs(4));
                (suffix, p1, p2).prop_map(move |(s, p1, mut p2)| {
                    if mode == 1 {
                        p2.clear();
                    }
                    Case { spec: Some(spec.clone()), xs: scale_up(&p1, e1), ys: p2, zs: s, a: Rat(1, 1), b: Rat(0, 1), ints: vec![k as i64, n as i64], ..Default::default() }
                })
            })
            .boxed()
    }
}
fn strategy(vd: &'static ViewDef, max_exp: u32) -> impl Fn(Tier) -> BoxedStrategy<Case> + Send + Sync {
    move |tier: Tier| {
        let long = strategy_long(vd);
        let short = strategy_short(vd, max_exp, tier);
        prop_oneof![12 => short, 1 => long].boxed()
    }
}
fn strategy_short(vd: &'static ViewDef, max_exp: u32, tier: Tier) -> BoxedStrategy<Case> {
    {
        (gen::window(tier, vd.min_n, 24, 120), 1usize..=6, gen::dyadic_scale(), 0u32..=max_exp, 0u32..=max_exp, 0usize..4, 0usize..4)
            .prop_flat_map(move |(n, m, sc, e1, e2, r, mode)| {
                let k = (vd.k)(n, m);
                let extra = [0, 1, n / 2, n][r];
                let suffix = gen::stream(StreamCfg::new(n).scale(sc).len(k + extra, k + extra).segs(5));
                let p1 = gen::stream(StreamCfg::new(n).scale(sc).len(0, 5 * n + 3).segs(4));
                let p2 = gen::stream(StreamCfg::new(n).scale(sc).len(0, 5 * n + 3).segs(4));
                (suffix, p1, p2).prop_map(move |(s, p1, p2)| {
                    // modes: 0 = unrelated prefixes; 1 = second prefix empty; 2 = second prefix is a copy of the suffix; 3 = first prefix ends flat at a far level
                    let (mut p1, mut p2) = (scale_up(&p1, e1), scale_up(&p2, e2));
                    match mode {
                        1 => p2.clear(),
                        2 => p2 = s.clone(),
                        3 => {
                            let lvl = p1.last().copied().unwrap_or(Rat(1 << 20, 1));
                            p1.extend(std::iter::repeat(lvl).take(n + 1));
                        }
                        _ => {}
                    }
                    Case { spec: Some((vd.mk)(n, m)), xs: p1, ys: p2, zs: s, a: Rat(1, 1), b: Rat(0, 1), ints: vec![k as i64, n as i64], ..Default::default() }
                })
            })
            .boxed()
    }
}

/// steps (indices into the suffix) at which the view is explicitly allowed to depend on older history
fn exempt(vd: &ViewDef, s: &[R], n: usize, j: usize) -> bool {
    match vd.exemption {
        1 => j >= n && (j - n..j).all(|i| s[i] == s[i + 1]), // last N+1 values all equal: MyRSI holds its previous output
        2 => j >= n && s[j - n].is_zero(),                      // Roc: base x_{t-N} = 0, output held
        _ => false,
    }
}

fn check(vd: &'static ViewDef, exact: bool) -> impl Fn(&Case) -> Verdict + Send + Sync {
    move |case: &Case| {
        let spec = case.spec();
        let k = case.ints[0] as usize;
        let n = case.ints[1] as usize;
        let ultra = case.ints.len() >= 5;
        let chained = !vd.name.starts_with("PFE") && spec.depth() > 2;
        let id = format!("C03/{}/{}/{}", vd.name, if ultra { "ultra" } else if chained { "chained" } else { "suffix" }, if exact { "Q" } else { "f64" });
        let s = bigs(&case.zs);
        let ultra_prefix: Vec<Rat> = if ultra { gen::ultra_stream(case.ints[2] as u64, case.ints[3] as usize, case.ints[4]).into_iter().map(|k| Rat(k, 8)).collect() } else { vec![] };
        let xs: &[Rat] = if ultra { &ultra_prefix } else { &case.xs };
        if s.len() < k {
            return Verdict::Discard("suffix shorter than K".into());
        }
        let h1: Vec<Rat> = xs.iter().chain(case.zs.iter()).copied().collect();
        let h2: Vec<Rat> = case.ys.iter().chain(case.zs.iter()).copied().collect();
        let (o1, o2): (Vec<Option<XV>>, Vec<Option<XV>>) = if exact {
            (run_q(spec, &bigs(&h1)), run_q(spec, &bigs(&h2)))
        } else {
            let cv = |v: Vec<Option<f64>>| v.into_iter().map(|o| o.map(XV::from_f64)).collect();
            (cv(run_f64(spec, &f64s(&h1))), cv(run_f64(spec, &f64s(&h2))))
        };
        let maxmag = max_abs(bigs(&h1).iter().chain(bigs(&h2).iter())) + R::one();
        let unit = matches!(vd.name, "HLNormalizer" | "BinaryEntropy" | "CTI" | "NET");
        let pfe = vd.name.starts_with("PFE");
        let tol: R = if exact {
            tol_q_irr_or_zero(&maxmag)
        } else if unit {
            f(1e-9)
        } else if pfe {
            // the embedded average sums the raw efficiency ratios p, and |p| <= sqrt(dx^2 + N^2) <= 2 max|x| + N
            f(1e-9) * (&maxmag * R::from_integer(2.into()) + R::from_integer((n as i64).into()))
        } else if vd.name == "Roc" || vd.name == "CenterOfGravity" {
            R::zero() // recomputed from stored values: a ratio with no magnitude-proportional bound; compared relatively below
        } else {
            f(1e-9) * &maxmag
        };
        let (l1, l2) = (xs.len(), case.ys.len());
        let mut compared = 0;
        let mut exempted = 0;
        let mut differed_before = false;
        for j in 0..s.len() {
            let (a, b) = (&o1[l1 + j], &o2[l2 + j]);
            if j + 1 < k {
                if a != b {
                    differed_before = true;
                }
                continue;
            }
            if exempt(vd, &s, n, j) {
                exempted += 1;
                continue;
            }
            compared += 1;
            let same = match (a, b) {
                (None, None) => true,
                (Some(x), Some(y)) => match (x.fin(), y.fin()) {
                    (Some(p), Some(q)) => {
                        let d = abs_diff(p, q);
                        if !exact && tol.is_zero() {
                            d <= f(1e-9) * (R::one() + p.abs())
                        } else {
                            d <= tol
                        }
                    }
                    _ => x == y, // both the same non-finite value is "the same output" for this property (finiteness is C08)
                },
                _ => false,
            };
            if !same {
                let aspect = if a.is_some() != b.is_some() { "readiness" } else { "value" };
                return Verdict::fail(
                    format!("{id}|{aspect}"),
                    format!(
                        "{}: after {} common suffix values (K = {k}) the outputs still depend on the prefix: {} (prefix {}) vs {} (prefix {}); suffix {}",
                        spec.show(),
                        j + 1,
                        show_opt(a),
                        if ultra { format!("of {} values: ultra_stream(seed {}, shape {}) on the 1/8 grid, starting {}", xs.len(), case.ints[2], case.ints[4], show_rats(&xs[..8])) } else { show_rats(xs) },
                        show_opt(b),
                        show_rats(&case.ys),
                        show_rats(&case.zs)
                    ),
                );
            }
        }
        // the last K values' predecessors differ (or one history has none): the prefixes really are different
        let prefixes_differ = xs != &case.ys[..];
        let pre_out_differ = differed_before || o1.get(l1.wrapping_sub(1)).map(|x| x.clone()) != o2.get(l2.wrapping_sub(1)).map(|x| x.clone());
        let mut labels = vec![];
        if exempted > 0 {
            labels.push("exempt_steps(held_output)".to_string());
        }
        if l1 != l2 {
            labels.push("prefix_lengths_differ".into());
        }
        if case.ys.is_empty() || xs.is_empty() {
            labels.push("one_prefix_empty".into());
        }
        if pre_out_differ {
            labels.push("outputs_differed_before_suffix_complete".into());
        }
        Verdict::pass(prefixes_differ && pre_out_differ && compared > 0, labels)
    }
}

/// fz_single: view, N, M, scalar, two prefix lengths; the stream is cut into prefix 1, prefix 2 and the common suffix (>= K values)
pub fn fuzz_decode(u: &mut arbitrary::Unstructured) -> Option<(String, Case)> {
    let vd = &VIEWS[u.int_in_range(0..=VIEWS.len() - 1).ok()?];
    let n = vd.min_n + u.int_in_range(0..=15usize).ok()?;
    let m = 1 + u.int_in_range(0..=3usize).ok()?;
    let exact = !vd.f64_leg || u.int_in_range(0..=1u8).ok()? == 0;
    let (l1, l2) = (u.int_in_range(0..=90usize).ok()?, u.int_in_range(0..=90usize).ok()?);
    let vals = crate::fuzzdec::stream(u, false, 200);
    let k = (vd.k)(n, m);
    if vals.len() < k {
        return None;
    }
    let avail = vals.len() - k;
    let l1 = l1.min(avail);
    let l2 = l2.min(avail - l1);
    let (p1, rest) = vals.split_at(l1);
    let (p2, s) = rest.split_at(l2);
    Some((format!("C03/{}/suffix/{}", vd.name, if exact { "Q" } else { "f64" }), Case { spec: Some((vd.mk)(n, m)), xs: p1.to_vec(), ys: p2.to_vec(), zs: s.to_vec(), a: Rat(1, 1), b: Rat(0, 1), ints: vec![k as i64, n as i64], ..Default::default() }))
}

fn tol_q_irr_or_zero(scale: &R) -> R {
    // exact unless the exact scalar had to round (long recursion) or a square root was taken
    if crate::q::arena_rounded() == 0 {
        // square roots / logs are deterministic functions of exact arguments: equal windows give equal results
        R::zero()
    } else {
        tol_q_irr(&(scale * scale))
    }
}

pub fn clauses() -> Vec<Clause> {
    let mut v = vec![];
    for vd in VIEWS.iter() {
        let rule = "view, N (1..24, thorough ..120; M in 1..6 for PFE's average), suffix of exactly K or K+{1,N/2,N} values, two prefixes of 0..5N+3 values each scaled by 2^e (e <= 40 in Q, <= 20 in f64), also: empty prefix, prefix = copy of the suffix, prefix ending in a flat stretch at a far level. K = N (N+1 for Rsi, MyRSI, Roc; 2N for Alma; N+M-1 / N+2M-1 for PFE over Sma(M) / Alma(M)). Compared at every suffix position >= K; held-output steps (MyRSI flat window, Roc zero base) exempt and counted. Non-trivial: the prefixes differ AND the two runs' outputs differed before the suffix was complete (the check could have failed).";
        v.push(Clause::generated("C03", format!("C03/{}/suffix/Q", vd.name), rule, 600, 20_000, strategy(vd, 40), check(vd, true)).with_shard(100));
        if vd.exemption == 0 && !vd.name.starts_with("PFE") {
            v.push(Clause::generated("C03", format!("C03/{}/chained/Q", vd.name), "the view (N in its minimum..12, thorough ..40) over Sma, Max, Min or Cumulative of window M in 2..6 instead of over Echo: two histories (prefixes of 1..4N+3 and 0..4N+3 values, the first scaled by 2^e, e <= 20; one case in three with an empty second prefix) sharing their last K + M - 1 raw values must agree from there on, exactly in Q. A view that keeps anything of the raw input instead of its inner view's output, or of the first values it ever saw, fails here and nowhere over Echo. Non-trivial as for the suffix clauses.", 400, 10_000, strategy_chained(vd), check(vd, true)).with_shard(100));
        }
        let urule = "one prefix of 135 000 values (f64 leg of the thorough tier: 1.1e6; the exact leg stays at 135 000, its arena of big values is bounded; past 2^16 and 2^17 updates: wide noise, walk with plateaus, zero stretches or ties around a level, on the 1/8 grid, derived from a generated seed), the other 0..3N grammar values, N from the view's minimum to +7 (1 in 4: 9..40); same oracle and non-triviality rule.";
        v.push(Clause::generated("C03", format!("C03/{}/ultra/Q", vd.name), urule, 1, 20, strategy_ultra(vd, true), check(vd, true)).with_shard(1));
        if vd.f64_leg {
            v.push(Clause::generated("C03", format!("C03/{}/ultra/f64", vd.name), urule, 1, 20, strategy_ultra(vd, false), check(vd, false)).with_shard(1));
        }
        if vd.f64_leg {
            v.push(Clause::generated("C03", format!("C03/{}/suffix/f64", vd.name), rule, 600, 20_000, strategy(vd, 20), check(vd, false)).with_shard(200));
        }
    }
    v
}
