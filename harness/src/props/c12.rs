//! C12 — Normalised indicators are invariant to units, offset and sign.
//! Metamorphic pairs x vs a x + b (a > 0), x vs a x, x vs -x; exact in Q for arbitrary rational a, b; bit-exact in f64 for a = 2^k.
use super::common::f;
use crate::catalog::*;
use crate::core::*;
use crate::exec::*;
use crate::gen::{self, StreamCfg};
use crate::q::XV;
use crate::refs::{self, R};
use num::traits::{One, Signed, Zero};
use proptest::prelude::*;

#[derive(Clone, Copy, PartialEq, Debug)]
enum Neg {
    No,
    Negates,
    Rsi,
    MinMax,
}
#[derive(Clone, Copy)]
struct Entry {
    name: &'static str,
    mk: fn(usize) -> Spec,
    min_n: usize,
    /// unchanged under x -> a x + b (a > 0)
    affine_inv: bool,
    /// unchanged under x -> a x (a > 0)
    scale_inv: bool,
    /// output scales by a under x -> a x
    scales: bool,
    neg: Neg,
    positive: bool,
    /// involves a root / transcendental: 2^-150 tolerance in Q
    irr: bool,
}
const fn e(name: &'static str, mk: fn(usize) -> Spec, min_n: usize, affine_inv: bool, scale_inv: bool, scales: bool, neg: Neg, positive: bool, irr: bool) -> Entry {
    Entry { name, mk, min_n, affine_inv, scale_inv, scales, neg, positive, irr }
}
const TABLE: [Entry; 28] = [
    e("HLNormalizer", |n| Spec::HlNormalizer(echo(), n), 1, true, true, false, Neg::Negates, false, false),
    e("Vsct", |n| Spec::Vsct(echo(), n), 1, true, true, false, Neg::Negates, false, true),
    e("CTI", |n| Spec::Cti(echo(), n), 1, true, true, false, Neg::Negates, false, true),
    e("NET", |n| Spec::Net(echo(), n), 2, true, true, false, Neg::Negates, false, false),
    e("EFT", |n| Spec::Eft(echo(), Box::new(Spec::Ema(echo(), 3)), n), 2, true, true, false, Neg::No, false, true),
    e("Rsi", |n| Spec::Rsi(echo(), n), 1, false, true, false, Neg::Rsi, false, false),
    e("MyRSI", |n| Spec::MyRsi(echo(), n), 1, false, true, false, Neg::Negates, false, false),
    e("LaguerreRSI", |n| Spec::LaguerreRsi(echo(), n), 1, false, true, false, Neg::No, false, false),
    e("Vst", |n| Spec::Vst(echo(), n), 1, false, true, false, Neg::Negates, false, true),
    e("Roc", |n| Spec::Roc(echo(), n), 1, false, true, false, Neg::No, false, false),
    e("CenterOfGravity", |n| Spec::CenterOfGravity(echo(), n), 1, false, true, false, Neg::No, false, false),
    e("BinaryEntropy", |n| Spec::BinaryEntropy(echo(), n), 1, false, true, false, Neg::No, false, true),
    e("TrendFlex", |n| Spec::TrendFlex(echo(), n), 3, false, true, false, Neg::Negates, false, true),
    e("ReFlex", |n| Spec::ReFlex(echo(), n), 3, false, true, false, Neg::Negates, false, true),
    e("LnReturn", |_| Spec::LnReturn(echo()), 1, false, true, false, Neg::No, true, true),
    e("Drawdown", |_| Spec::Drawdown(echo()), 1, false, true, false, Neg::No, true, false),
    e("Min", |n| Spec::Min(echo(), n), 1, false, false, true, Neg::MinMax, false, false),
    e("Max", |n| Spec::Max(echo(), n), 1, false, false, true, Neg::No, false, false),
    e("Sma", |n| Spec::Sma(echo(), n), 1, false, false, true, Neg::No, false, false),
    e("Ema", |n| Spec::Ema(echo(), n), 1, false, false, true, Neg::No, false, false),
    e("Alma", |n| Spec::Alma(echo(), n), 1, false, false, true, Neg::No, false, true),
    e("Cumulative", |n| Spec::Cumulative(echo(), n), 1, false, false, true, Neg::No, false, false),
    e("WelfordOnline", |n| Spec::WelfordOnline(echo(), n), 1, false, false, true, Neg::No, false, true),
    e("LaguerreFilter", |n| Spec::LaguerreFilter(echo(), [0.0, 0.2, 0.5, 0.8, 0.95][n % 5]), 1, false, false, true, Neg::No, false, false),
    e("SuperSmoother", |n| Spec::SuperSmoother(echo(), n), 1, false, false, true, Neg::No, false, true),
    e("RoofingFilter", |n| Spec::Roofing(echo(), n.max(2), 1 + n % 4), 2, false, false, true, Neg::No, false, true),
    e("CyberCycle", |n| Spec::CyberCycle(echo(), n), 3, false, false, true, Neg::No, false, false),
    e("WelfordRolling", |_| Spec::WelfordRolling(echo()), 1, false, false, true, Neg::No, false, true),
];

#[derive(Clone, Copy, PartialEq)]
enum Rel {
    Affine,
    Scale,
    Negation,
}
fn applies(en: &Entry, rel: Rel) -> bool {
    match rel {
        Rel::Affine => en.affine_inv,
        Rel::Scale => en.scale_inv || en.scales,
        Rel::Negation => en.neg != Neg::No,
    }
}

fn strategy(rel: Rel, exact: bool) -> impl Fn(Tier) -> BoxedStrategy<Case> + Send + Sync {
    move |tier: Tier| {
        // f64 affine leg: only the views that never form anything but differences (and comparisons) of inputs
        let idx: Vec<usize> = (0..TABLE.len()).filter(|i| applies(&TABLE[*i], rel) && (exact || rel != Rel::Affine || matches!(TABLE[*i].name, "HLNormalizer" | "NET" | "EFT"))).collect();
        (proptest::sample::select(idx), 1usize..=tier.pick(20, 64), gen::dyadic_scale(), 1i64..=48, 1i64..=48, -64i64..=64, 0u32..4, prop_oneof![3 => -30i64..=30, 2 => -200i64..=200])
            .prop_flat_map(move |(i, n, sc, p, q, r, be, k2)| {
                let en = TABLE[i];
                let n = n.max(en.min_n);
                let mut cfg = StreamCfg::new(n).scale(sc).len(0, 3 * n + 20).kmax(2048);
                if en.positive {
                    cfg = cfg.positive();
                }
                gen::stream(cfg).prop_map(move |xs| {
                    let (a, b) = match rel {
                        Rel::Negation => (Rat(-1, 1), Rat(0, 1)),
                        Rel::Scale if exact => (Rat(p, q), Rat(0, 1)),
                        Rel::Affine if exact => (Rat(p, q), Rat(r << (10 * be), 8)),
                        // f64 affine leg: a = 1 and a dyadic offset up to 2^37 grid units (x + b is exact in f64)
                        // ... or, one case in four, an offset of 2^52 + r 2^40 grid units: x + b is still exact but uses all 53 bits,
                        // so that anything but a difference of two inputs (a sum, a midpoint) must round
                        Rel::Affine if be == 3 => (Rat(1, 1), Rat(((1i64 << 52) + (r.abs() << 40)) * sc.0, sc.1)),
                        Rel::Affine => (Rat(1, 1), Rat(r << (10 * be), 8)),
                        // f64 legs: a = 2^k, b = 0 (bit-exact commutation with every IEEE operation)
                        // (a = 2^k2 travels in ints[1]: k2 ranges over -200..200, far beyond an i64 ratio; tiny and huge units
                        // expose absolute thresholds such as `< epsilon` that a moderate unit never meets)
                        _ => (Rat(1, 1), Rat(0, 1)),
                    };
                    let pow2 = rel == Rel::Scale && !exact;
                    Case { spec: Some((en.mk)(n)), xs, a, b, ints: if pow2 { vec![i as i64, k2] } else { vec![i as i64] }, ..Default::default() }
                })
            })
            .boxed()
    }
}

fn pow2_r(k: i64) -> R {
    let p = R::from_integer(num::BigInt::from(1) << k.unsigned_abs() as usize);
    if k >= 0 { p } else { R::one() / p }
}

fn flat_window(h: &[R], t: usize, n: usize) -> bool {
    let w = refs::window(h, t, n);
    w.windows(2).all(|p| p[0] == p[1])
}

fn check(rel: Rel, exact: bool) -> impl Fn(&Case) -> Verdict + Send + Sync {
    move |case: &Case| {
        let en = TABLE[case.ints[0] as usize];
        let spec = case.spec();
        let n = spec.own_windows().first().copied().unwrap_or(1);
        let rname = match rel {
            Rel::Affine => "affine",
            Rel::Scale => "scale",
            Rel::Negation => "negation",
        };
        let sc = if exact { "Q" } else { "f64" };
        let id = format!("C12/{rname}/{}/{sc}", en.name);
        let k2 = case.ints.get(1).copied();
        let (a, b) = (match k2 { Some(k) => pow2_r(k), None => case.a.big() }, case.b.big());
        let ashow = match k2 { Some(k) => format!("2^{k}"), None => format!("{}/{}", case.a.0, case.a.1) };
        let h = bigs(&case.xs);
        let h2: Vec<R> = h.iter().map(|x| &a * x + &b).collect();
        // the transformed view: Min(-x) is compared with -Max(x)
        let spec2 = if rel == Rel::Negation && en.neg == Neg::MinMax { Spec::Max(echo(), n) } else { spec.clone() };
        let (o1, o2): (Vec<Option<XV>>, Vec<Option<XV>>) = if exact {
            (run_q(&spec2, &h), run_q(spec, &h2))
        } else {
            let x1 = f64s(&case.xs);
            let af = match k2 { Some(k) => 2f64.powi(k as i32), None => case.a.f64() };
            let bf = case.b.f64();
            let x2: Vec<f64> = x1.iter().map(|x| af * x + bf).collect();
            let cv = |v: Vec<Option<f64>>| v.into_iter().map(|o| o.map(XV::from_f64)).collect();
            (cv(run_f64(&spec2, &x1)), cv(run_f64(spec, &x2)))
        };
        let maxabs = max_abs(h.iter().chain(h2.iter())) + R::one();
        let mut compared = 0;
        let mut exempted = 0;
        let mut outs = std::collections::BTreeSet::new();
        for t in 0..h.len() {
            // stated provisos
            let flat = flat_window(&h, t, n);
            if flat && ((rel == Rel::Scale && en.name == "Vst") || (rel == Rel::Negation && en.neg == Neg::Rsi)) {
                exempted += 1;
                continue;
            }
            // LaguerreRSI, TrendFlex and ReFlex report a quotient of quantities that decay geometrically while the input is flat
            // (findings #19, #26). The exact scalar rounds to 320 significant bits once its rationals outgrow 512 bits: after a
            // long flat run those residues lie below that precision and the two runs' quotients are rounding noise of the
            // *harness*. Such steps are exempt when (and only when) the exact scalar did round in this case.
            if exact && matches!(en.name, "LaguerreRSI" | "TrendFlex" | "ReFlex") && t >= 8 && h[t - 8..t].iter().all(|x| x == &h[t]) && crate::q::arena_rounded() > 0 {
                exempted += 1;
                continue;
            }
            match (&o1[t], &o2[t]) {
                (None, None) => {}
                (Some(u), Some(v)) => {
                    let (Some(u), Some(v)) = (u.fin(), v.fin()) else {
                        if u == v {
                            continue; // the same non-finite value on both sides: finiteness is C08's subject
                        }
                        return Verdict::fail(format!("{id}|nonfinite"), format!("{} step {t}: {} vs {} (a = {ashow}, b = {}/{}); x = {}", spec.show(), u.show(), v.show(), case.b.0, case.b.1, show_rats(&case.xs)));
                    };
                    outs.insert(show(u));
                    let want: R = match rel {
                        Rel::Affine => u.clone(),
                        Rel::Scale => {
                            if en.scales {
                                &a * u
                            } else {
                                u.clone()
                            }
                        }
                        Rel::Negation => match en.neg {
                            Neg::Negates | Neg::MinMax => -u.clone(),
                            Neg::Rsi => R::from_integer(100.into()) - u,
                            Neg::No => unreachable!(),
                        },
                    };
                    let tol = if !exact && rel == Rel::Negation {
                        // negation is not claimed bit-exact (100 - x and the swapped min/max round differently): rounding noise only
                        f(1e-9) * (R::one() + want.abs())
                    } else if !exact {
                        R::zero() // a = 2^k: bit-exact
                    } else if en.irr {
                        tol_q_irr(&(want.abs() + &maxabs))
                    } else {
                        tol_q(&(want.abs() + &maxabs))
                    };
                    if abs_diff(&want, v) > tol {
                        let partial = t + 1 < n;
                        return Verdict::fail(
                            format!("{id}|value{}", if partial { "|partial_window" } else { "" }),
                            format!("{} step {t}: view(x) = {}, view(transformed x) = {} but the relation requires {} (a = {ashow}, b = {}/{}); x = {}", spec.show(), show(u), show(v), show(&want), case.b.0, case.b.1, show_rats(&case.xs)),
                        );
                    }
                    compared += 1;
                }
                (x, y) => return Verdict::fail(format!("{id}|readiness"), format!("{} step {t}: readiness differs between x ({}) and the transformed stream ({}); x = {}", spec.show(), show_opt(x), show_opt(y), show_rats(&case.xs))),
            }
        }
        let mut l = vec![en.name.to_string()];
        if exempted > 0 {
            l.push("flat_window_steps_exempt".into());
        }
        if gen::has_tie(&case.xs) {
            l.push("tie".into());
        }
        if gen::has_zero(&case.xs) {
            l.push("zero".into());
        }
        if rel == Rel::Affine && case.b.0.abs() >= (1 << 20) {
            l.push("huge_offset".into());
        }
        let identity = case.a == Rat(1, 1) && case.b.is_zero() && k2.unwrap_or(0) == 0;
        if k2.map_or(false, |k| k.abs() > 52) {
            l.push("unit_beyond_2^52".into());
        }
        Verdict::pass(!identity && compared >= 3 && outs.len() >= 2, l)
    }
}

/// ultra-long runs (past 2^16 and 2^17 updates) of the f64 scale relation (a = 2^k, bit-exact): ints = [entry, k, seed, len, shape]
fn ultra_cases(tier: Tier) -> Vec<Case> {
    let len = tier.pick(135_000usize, 1_100_000usize);
    let mut out = vec![];
    for (i, en) in TABLE.iter().enumerate() {
        if !applies(en, Rel::Scale) {
            continue;
        }
        let n = en.min_n.max(5);
        out.push(Case { spec: Some((en.mk)(n)), a: Rat(1, 1), b: Rat(0, 1), ints: vec![i as i64, [-61, 37, -7][i % 3], 0xC12_0000 + 19 * i as i64, len as i64, (i % 4) as i64], ..Default::default() });
    }
    out
}
fn ultra_check(case: &Case) -> Verdict {
    let en = TABLE[case.ints[0] as usize];
    let (seed, len, shape) = (case.ints[2] as u64, case.ints[3] as usize, case.ints[4]);
    let ks: Vec<i64> = gen::ultra_stream(seed, len, shape).into_iter().map(|k| if en.positive { k.abs().max(1) } else { k }).collect();
    let full = Case { xs: gen::to_rats(&ks, Rat(1, 8)), ints: case.ints[..2].to_vec(), ..case.clone() };
    match check(Rel::Scale, false)(&full) {
        Verdict::Fail { sig, msg } => {
            let cut = msg.find("; x = ").unwrap_or(msg.len());
            Verdict::Fail { sig: sig.replace("C12/scale/", "C12/ultra_scale/"), msg: format!("{} (x = ultra_stream(seed {seed}, len {len}, shape {shape}){}, grid 1/8)", &msg[..cut], if en.positive { " made positive" } else { "" }) }
        }
        v => v,
    }
}

/// fz_single: relation (affine Q, scale Q, scale f64 with a = 2^k, negation Q), view of that relation's list, N, a, b, stream
pub fn fuzz_decode(u: &mut arbitrary::Unstructured) -> Option<(String, Case)> {
    let which = u.int_in_range(0..=3u8).ok()?;
    let (rel, exact, id) = match which {
        0 => (Rel::Affine, true, "C12/affine/Q"),
        1 => (Rel::Scale, true, "C12/scale/Q"),
        2 => (Rel::Scale, false, "C12/scale/f64"),
        _ => (Rel::Negation, true, "C12/negation/Q"),
    };
    let idx: Vec<usize> = (0..TABLE.len()).filter(|i| applies(&TABLE[*i], rel)).collect();
    let i = idx[u.int_in_range(0..=idx.len() - 1).ok()?];
    let en = TABLE[i];
    let n = en.min_n.max(1) + u.int_in_range(0..=19usize).ok()?;
    let (p, q, r, be, k2) = (1 + u.int_in_range(0..=47i64).ok()?, 1 + u.int_in_range(0..=47i64).ok()?, u.int_in_range(-64..=64i64).ok()?, u.int_in_range(0..=3u32).ok()?, u.int_in_range(-200..=200i64).ok()?);
    let xs = crate::fuzzdec::stream(u, en.positive, 200);
    let (a, b) = match (rel, exact) {
        (Rel::Negation, _) => (Rat(-1, 1), Rat(0, 1)),
        (Rel::Scale, true) => (Rat(p, q), Rat(0, 1)),
        (Rel::Affine, true) => (Rat(p, q), Rat(r << (10 * be), 8)),
        _ => (Rat(1, 1), Rat(0, 1)),
    };
    let pow2 = rel == Rel::Scale && !exact;
    Some((id.to_string(), Case { spec: Some((en.mk)(n)), xs, a, b, ints: if pow2 { vec![i as i64, k2] } else { vec![i as i64] }, ..Default::default() }))
}

pub fn clauses() -> Vec<Clause> {
    let g = "view drawn from the statement's list for the relation, N in 1..20 (thorough ..64) from the view's minimum, grammar stream of 0..3N+20 values on a dyadic grid (ties, zeros, flats, sign changes; positive for LnReturn / Drawdown).";
    vec![
        Clause::generated("C12", "C12/affine/Q", format!("{g} x vs a x + b with a = p/q (1..48 each) and b = r 2^(10e)/8 (|r| <= 64, e in 0..3: offsets up to 2^30 times the grid move everything across 0). HLNormalizer, Vsct, CTI, NET, EFT unchanged, exactly in Q (2^-150 where a root is involved); identical readiness. Non-trivial: (a,b) != (1,0), >= 3 steps compared, >= 2 distinct outputs."), 6000, 150_000, strategy(Rel::Affine, true), check(Rel::Affine, true)).with_shard(150),
        Clause::generated("C12", "C12/scale/Q", format!("{g} x vs a x, a = p/q. Rsi, MyRSI, LaguerreRSI, Vst (flat windows exempt: it returns x_t there by C02's convention), Roc, CoG, BinaryEntropy, TrendFlex, ReFlex, LnReturn, Drawdown, and the list-(i) views unchanged; Min, Max, Sma, Ema, Alma, Cumulative, WelfordOnline, WelfordRolling, LaguerreFilter, SuperSmoother, RoofingFilter, CyberCycle scale by a. Exact in Q."), 8000, 200_000, strategy(Rel::Scale, true), check(Rel::Scale, true)).with_shard(100),
        Clause::generated("C12", "C12/scale/f64", format!("{g} a = 2^k, k in -30..30 (3 in 5) or -200..200 (2 in 5; units far below f64 epsilon and far above 2^53): the same relations must hold bit for bit in f64 (scaling by a power of two commutes with every IEEE operation absent over/underflow)."), 20_000, 500_000, strategy(Rel::Scale, false), check(Rel::Scale, false)).with_shard(1000),
        Clause::enumerated("C12", "C12/ultra_scale/f64", "Enumerated: every view of the scale relation at N = max(minimum, 5), 135 000 values (thorough 1.1e6; past 2^16 and 2^17 updates) on the 1/8 grid, x vs 2^k x with k in {-61, 37, -7}: unchanged / scaled bit for bit in f64 at every step (Vst's flat windows exempt).", ultra_cases, ultra_check).with_shard(2),
        Clause::generated("C12", "C12/affine/f64", format!("{g} HLNormalizer, NET and EFT only ever form differences and comparisons of their inputs: x vs x + b with b a dyadic offset up to 2^37 grid units, or (one case in four) of 2^52..2^53 grid units (x + b still exact in f64, but any sum or midpoint of two inputs must round), must give bit-identical outputs in f64."), 6000, 150_000, strategy(Rel::Affine, false), check(Rel::Affine, false)).with_shard(1000),
        Clause::generated("C12", "C12/negation/Q", format!("{g} x vs -x: HLNormalizer, Vsct, Vst, MyRSI, CTI, NET, TrendFlex, ReFlex negate; Rsi -> 100 - Rsi on non-flat windows; Min(-x) = -Max(x). Exact in Q."), 6000, 150_000, strategy(Rel::Negation, true), check(Rel::Negation, true)).with_shard(150),
        Clause::generated("C12", "C12/negation/f64", format!("{g} the same relations in f64 up to 1e-9 (1 + |value|)."), 12_000, 300_000, strategy(Rel::Negation, false), check(Rel::Negation, false)).with_shard(1000),
    ]
}
