//! C13 — Rolling statistics equal their batch definition over the whole history (WelfordRolling, Drawdown, LnReturn).
use super::common::*;
use crate::catalog::*;
use crate::core::*;
use crate::exec::*;
use crate::gen::{self, StreamCfg};
use crate::q::Q;
use crate::refs::{self, R};
use num::bigint::BigInt;
use num::traits::{One, Signed, Zero};
use num::Float;
use proptest::prelude::*;
use sliding_features::View;

/// positive streams in units 2^e2 far outside the i64 ratios (f64 legs of the two ratio views: both are scale-free)
fn pos_case_e2(spec: Spec) -> impl Fn(Tier) -> BoxedStrategy<Case> + Send + Sync {
    move |tier: Tier| {
        let spec = spec.clone();
        (pos_stream_grid(tier), prop_oneof![4 => Just(0i32), 1 => Just(-80i32), 1 => Just(-300i32), 1 => Just(-1040i32), 1 => Just(300i32)]).prop_map(move |(xs, e2)| Case { e2, ..Case::of(spec.clone(), xs) }).boxed()
    }
}
fn pos_stream_grid(tier: Tier) -> BoxedStrategy<Vec<Rat>> {
    (1usize..=24).prop_flat_map(move |n| gen::stream(StreamCfg::new(n).positive().scale(Rat(1, 8)).kmax(1 << 20).len(0, tier.pick(200, 300)).segs(8))).boxed()
}
fn pos_stream(tier: Tier) -> BoxedStrategy<Vec<Rat>> {
    (gen::dyadic_scale_wide(), 1usize..=24)
        .prop_flat_map(move |(sc, n)| gen::stream(StreamCfg::new(n).positive().scale(sc).len(0, tier.pick(200, 300)).segs(8)))
        .boxed()
}

/// number of distinct running peaks, and whether a decline happened after the last new peak following an earlier drawdown
fn peak_shape(h: &[R]) -> (usize, bool) {
    let mut peaks = 0;
    let mut peak: Option<R> = None;
    let mut had_dd = false;
    let mut dd_after_later_peak = false;
    let mut fresh_peak_after_dd = false;
    for x in h {
        match &peak {
            Some(p) if x <= p => {
                if x < p {
                    if fresh_peak_after_dd {
                        dd_after_later_peak = true;
                    }
                    had_dd = true;
                }
            }
            _ => {
                peaks += 1;
                if had_dd {
                    fresh_peak_after_dd = true;
                }
                peak = Some(x.clone());
            }
        }
    }
    (peaks, dd_after_later_peak)
}

fn welford_q(case: &Case) -> Verdict {
    let spec = Spec::WelfordRolling(echo());
    let h = bigs(&case.xs);
    let mut v = build::<Q>(&spec);
    let maxabs = running_max_abs(&h);
    for (t, x) in h.iter().enumerate() {
        v.update(qv(x));
        let w = &h[..=t];
        let (m, var) = (refs::mean(w), refs::pop_var(w));
        let scale = &maxabs[t] + R::one();
        let gm = v.welford_mean().unwrap().extract();
        let gv = v.welford_variance().unwrap().extract();
        let gl = v.last().map(|o| o.extract());
        if gm.fin().map(|g| abs_diff(g, &m) <= tol_q(&scale)) != Some(true) {
            return Verdict::fail("C13/WelfordRolling/batch/Q|mean", format!("step {t}: mean() = {} expected {} over {} values; input {}", gm.show(), show(&m), t + 1, show_rats(&case.xs)));
        }
        if gv.fin().map(|g| abs_diff(g, &var) <= tol_q(&(&scale * &scale))) != Some(true) {
            return Verdict::fail("C13/WelfordRolling/batch/Q|variance", format!("step {t}: variance() = {} expected population variance {}; input {}", gv.show(), show(&var), show_rats(&case.xs)));
        }
        let sd = refs::sqrt(&var);
        match gl {
            Some(g) if g.fin().map(|g| abs_diff(g, &sd) <= tol_q_irr(&scale)) == Some(true) => {}
            other => return Verdict::fail("C13/WelfordRolling/batch/Q|last", format!("step {t}: last() = {} expected population std {}; input {}", show_opt(&other), show(&sd), show_rats(&case.xs))),
        }
    }
    Verdict::pass(h.len() >= 3 && refs::max_of(&h) != refs::min_of(&h), gen::shape_labels(&case.xs, 8))
}

/// long streams in f64 against exact integer accumulators; ints = [seed, len, shape]
fn welford_long(case: &Case) -> Verdict {
    let (seed, len, shape) = (case.ints[0] as u64, case.ints[1] as usize, case.ints[2]);
    let scale = 1.0 / 64.0;
    let mut st = seed;
    let mut v = build::<f64>(&Spec::WelfordRolling(echo()));
    let (mut s1, mut s2): (i128, i128) = (0, 0);
    let mut kmax: i128 = 1;
    let mut level: i64 = 1 << 16;
    let check_every = (len / 256).max(1);
    for t in 0..len {
        let r = gen::splitmix(&mut st);
        let k: i64 = match shape {
            0 => 1 + (r % (1 << 20)) as i64,                                  // noise
            1 => {                                                             // random walk with plateaus
                if r % 7 != 0 {
                    level = (level + (r % 2049) as i64 - 1024).clamp(1, 1 << 21);
                }
                level
            }
            _ => (1 << 20) + (r % 16) as i64,                                 // large level, tiny spread (cancellation)
        };
        v.update(k as f64 * scale);
        s1 += k as i128;
        s2 += (k as i128) * (k as i128);
        kmax = kmax.max(k as i128);
        if t % check_every == 0 || t + 1 == len {
            let n = (t + 1) as i128;
            let mean = R::new(BigInt::from(s1), BigInt::from(n)) * f(scale);
            let var = (R::new(BigInt::from(s2), BigInt::from(n)) - R::new(BigInt::from(s1 * s1), BigInt::from(n * n))) * f(scale) * f(scale);
            let mag = R::from_integer(BigInt::from(kmax)) * f(scale);
            let gm = v.welford_mean().unwrap();
            let gv = v.welford_variance().unwrap();
            let gl = v.last();
            if !gm.is_finite() || abs_diff(&f(gm), &mean) > f(1e-9) * &mag {
                return Verdict::fail("C13/WelfordRolling/long/f64|mean", format!("n = {}: mean() = {gm:e} expected {} (seed {seed}, shape {shape})", t + 1, show(&mean)));
            }
            if !gv.is_finite() || abs_diff(&f(gv), &var) > f(1e-9) * &mag * &mag {
                return Verdict::fail("C13/WelfordRolling/long/f64|variance", format!("n = {}: variance() = {gv:e} expected {} (seed {seed}, shape {shape})", t + 1, show(&var)));
            }
            let sd = refs::sqrt(&var);
            match gl {
                Some(g) if g.is_finite() && abs_diff(&f(g), &sd) <= f(3.3e-5) * &mag => {}
                other => return Verdict::fail("C13/WelfordRolling/long/f64|last", format!("n = {}: last() = {other:?} expected {} (seed {seed}, shape {shape})", t + 1, show(&sd))),
            }
        }
    }
    Verdict::pass(len >= 1000, vec![format!("shape_{shape}"), format!("len_1e{}", (len as f64).log10().floor() as i64)])
}

/// long streams for Drawdown and LnReturn in f64 against integer bookkeeping; ints = [seed, len, shape, which]
fn dd_ln_long(case: &Case) -> Verdict {
    let (seed, len, shape, which) = (case.ints[0] as u64, case.ints[1] as usize, case.ints[2], case.ints[3]);
    let scale = 1.0 / 64.0;
    let mut st = seed;
    let spec = if which == 0 { Spec::Drawdown(echo()) } else { Spec::LnReturn(echo()) };
    let mut v = build::<f64>(&spec);
    let mut level: i64 = 1 << 16;
    let (mut peak, mut best): (i64, (i128, i128)) = (0, (0, 1)); // best = (peak - k, peak) as a fraction
    let mut prev: Option<i64> = None;
    let mut peaks = 0;
    for t in 0..len {
        let r = gen::splitmix(&mut st);
        let k: i64 = match shape {
            0 => 1 + (r % (1 << 20)) as i64,
            1 => {
                // walk with plateaus and a slow upward drift (new peaks keep arriving after drawdowns)
                if r % 7 != 0 {
                    level = (level + (r % 2049) as i64 - 1020).clamp(1, 1 << 40);
                }
                level
            }
            _ => (1 << 20) + (r % 16) as i64,
        };
        v.update(k as f64 * scale);
        let got = v.last();
        if which == 0 {
            if k > peak {
                peak = k;
                peaks += 1;
            }
            let cand = ((peak - k) as i128, peak as i128);
            if cand.0 * best.1 > best.0 * cand.1 {
                best = cand;
            }
            let want = best.0 as f64 / best.1 as f64;
            match got {
                Some(g) if g.is_finite() && (g - want).abs() <= 4.0 * f64::EPSILON => {}
                other => return Verdict::fail("C13/Drawdown/long/f64|value", format!("n = {}: Drawdown = {other:?} expected max_j (peak_j - x_j)/peak_j = {want:e} (seed {seed}, shape {shape})", t + 1)),
            }
        } else {
            match (prev, got) {
                (None, None) => {}
                (None, Some(g)) => return Verdict::fail("C13/LnReturn/long/f64|readiness", format!("reported {g:e} for the first input")),
                (Some(p), got) => {
                    let want = (k as f64 / p as f64).ln();
                    match got {
                        Some(g) if g.is_finite() && (g - want).abs() <= 1e-15 * (1.0 + want.abs()) => {}
                        other => return Verdict::fail("C13/LnReturn/long/f64|value", format!("n = {}: LnReturn = {other:?} expected ln({k}/{p}) = {want:e} (seed {seed}, shape {shape})", t + 1)),
                    }
                }
            }
            prev = Some(k);
        }
    }
    Verdict::pass(len >= 1000 && (which == 1 || peaks >= 2), vec![format!("shape_{shape}"), format!("len_1e{}", (len as f64).log10().floor() as i64), spec.name().to_string()])
}

fn drawdown_ref(h: &[R]) -> Vec<R> {
    let mut peak: Option<R> = None;
    let mut best = R::zero();
    h.iter()
        .map(|x| {
            if peak.as_ref().map_or(true, |p| x > p) {
                peak = Some(x.clone());
            }
            let p = peak.as_ref().unwrap();
            let dd = (p - x) / p;
            if dd > best {
                best = dd;
            }
            best.clone()
        })
        .collect()
}
fn drawdown_check(exact: bool) -> impl Fn(&Case) -> Verdict + Send + Sync {
    move |case: &Case| {
        let spec = Spec::Drawdown(echo());
        let sc = if exact { "Q" } else { "f64" };
        let (h, outs): (Vec<R>, Vec<Option<R>>) = if exact {
            let h = bigs(&case.xs);
            let o = run_q(&spec, &h).into_iter().map(|o| o.and_then(|v| v.fin().cloned())).collect();
            (h, o)
        } else {
            let xs = f64s_e(&case.xs, case.e2);
            let o = run_f64(&spec, &xs).into_iter().map(|o| o.filter(|v| v.is_finite()).map(f)).collect();
            (bigs_of_f64(&xs), o)
        };
        let wants = drawdown_ref(&h);
        for t in 0..h.len() {
            let tol = if exact { tol_q(&R::one()) } else { f(4.0 * f64::EPSILON) };
            match &outs[t] {
                Some(g) if abs_diff(g, &wants[t]) <= tol => {}
                other => return Verdict::fail(format!("C13/Drawdown/batch/{sc}|value"), format!("step {t}: Drawdown = {:?} expected max_j (peak_j - x_j)/peak_j = {}; input {}", other.as_ref().map(show), show(&wants[t]), show_rats(&case.xs))),
            }
        }
        let (peaks, dd_after) = peak_shape(&h);
        let mut l = vec![];
        if peaks >= 2 {
            l.push("several_peaks".to_string());
        }
        if dd_after {
            l.push("decline_after_new_peak_following_a_drawdown".into());
        }
        if h.windows(2).any(|w| w[0] == w[1]) {
            l.push("repeated_value".into());
        }
        Verdict::pass(peaks >= 2 && dd_after && h.len() >= 3, l)
    }
}

fn lnreturn_check(exact: bool) -> impl Fn(&Case) -> Verdict + Send + Sync {
    move |case: &Case| {
        let spec = Spec::LnReturn(echo());
        let sc = if exact { "Q" } else { "f64" };
        let n = case.xs.len();
        if exact {
            let h = bigs(&case.xs);
            let outs = run_q(&spec, &h);
            for t in 0..n {
                if t == 0 {
                    if outs[0].is_some() {
                        return Verdict::fail(format!("C13/LnReturn/batch/{sc}|readiness"), "reported a value for the first input".to_string());
                    }
                    continue;
                }
                let want = Q::from_ratio(&h[t] / &h[t - 1]).ln().get().unwrap();
                match &outs[t] {
                    Some(g) if g.fin().map(|g| abs_diff(g, &want) <= tol_q_irr(&R::one())) == Some(true) => {}
                    other => return Verdict::fail(format!("C13/LnReturn/batch/{sc}|value"), format!("step {t}: LnReturn = {} expected ln({}/{}) = {}", show_opt(other), show(&h[t]), show(&h[t - 1]), show(&want))),
                }
            }
        } else {
            let xs = f64s_e(&case.xs, case.e2);
            let outs = run_f64(&spec, &xs);
            for t in 0..n {
                if t == 0 {
                    if outs[0].is_some() {
                        return Verdict::fail(format!("C13/LnReturn/batch/{sc}|readiness"), "reported a value for the first input".to_string());
                    }
                    continue;
                }
                // reference: exact ln of the exact quotient of the two f64 inputs
                let quot = f(xs[t]) / f(xs[t - 1]);
                let want = Q::from_ratio(quot).ln().get().unwrap();
                match outs[t] {
                    Some(g) if g.is_finite() && abs_diff(&f(g), &want) <= f(1e-15) * (R::one() + want.abs()) => {}
                    other => return Verdict::fail(format!("C13/LnReturn/batch/{sc}|value"), format!("step {t}: LnReturn = {other:?} expected ln({:e}/{:e}) = {}", xs[t], xs[t - 1], show(&want))),
                }
            }
        }
        Verdict::pass(n >= 3, gen::shape_labels(&case.xs, 4))
    }
}

/// the rolling views over an inner view that withholds its first k inputs: their statistics must be those of the *delivered*
/// values only (a view that counts update() calls instead of delivered samples is invisible over Echo)
fn gated_check(case: &Case) -> Verdict {
    let spec = case.spec();
    let k = case.ints[0] as usize;
    let h = bigs(&case.xs);
    let plain = run_q(spec, &h);
    let mut v = build_gated::<Q>(spec, k);
    let before = v.last().map(|o| o.extract());
    for j in 0..k {
        v.update(qv(&R::from_integer(((j as i64 + 1) * 777).into())));
        let now = v.last().map(|o| o.extract());
        if now != before {
            return Verdict::fail(format!("C13/{}/gated/Q|changed_while_undelivered", spec.name()), format!("{} over a leaf withholding its first {k} inputs: answer changed from {} to {} at withheld update {}", spec.show(), show_opt(&before), show_opt(&now), j + 1));
        }
    }
    for (t, x) in h.iter().enumerate() {
        v.update(qv(x));
        let got = v.last().map(|o| o.extract());
        let same = match (&got, &plain[t]) {
            (None, None) => true,
            (Some(a), Some(b)) => match (a.fin(), b.fin()) {
                (Some(a), Some(b)) => abs_diff(a, b) <= tol_q_irr(&(b.abs() + R::one())),
                _ => a == b,
            },
            _ => false,
        };
        if !same {
            return Verdict::fail(format!("C13/{}/gated/Q|value", spec.name()), format!("{} over a leaf withholding its first {k} inputs: after {} delivered values it reports {} but over Echo fed the delivered values it reports {}; delivered {}", spec.show(), t + 1, show_opt(&got), show_opt(&plain[t]), show_rats(&case.xs)));
        }
    }
    Verdict::pass(h.len() >= 3, vec![spec.name().to_string()])
}

/// fz_single: clause (WelfordRolling Q, Drawdown Q / f64, LnReturn Q / f64, gated), positive stream
pub fn fuzz_decode(u: &mut arbitrary::Unstructured) -> Option<(String, Case)> {
    let which = u.int_in_range(0..=5u8).ok()?;
    let (w, k) = (u.int_in_range(0..=2usize).ok()?, 1 + u.int_in_range(0..=8i64).ok()?);
    let xs = crate::fuzzdec::stream(u, true, 200);
    Some(match which {
        0 => ("C13/WelfordRolling/batch/Q".into(), Case::of(Spec::WelfordRolling(echo()), xs)),
        1 => ("C13/Drawdown/batch/Q".into(), Case::of(Spec::Drawdown(echo()), xs)),
        2 => ("C13/Drawdown/batch/f64".into(), Case::of(Spec::Drawdown(echo()), xs)),
        3 => ("C13/LnReturn/batch/Q".into(), Case::of(Spec::LnReturn(echo()), xs)),
        4 => ("C13/LnReturn/batch/f64".into(), Case::of(Spec::LnReturn(echo()), xs)),
        _ => ("C13/gated/Q".into(), Case { spec: Some([Spec::WelfordRolling(echo()), Spec::Drawdown(echo()), Spec::LnReturn(echo())][w].clone()), xs, ints: vec![k], a: Rat(1, 1), ..Default::default() }),
    })
}

pub fn clauses() -> Vec<Clause> {
    let srule = "positive grammar streams of 0..200 values (thorough ..300) on dyadic grids: walks, runs up and down, plateaus, spikes, repeats (new peaks after deeper troughs, repeated equal peaks).";
    vec![
        Clause::generated("C13", "C13/WelfordRolling/batch/Q", format!("{srule} Oracle: mean(), variance(), last() equal sum x/n, sum (x-mu)^2/n and its root after every update, exactly in Q (2^-150 for the root). Non-trivial: n >= 3, non-constant."), 1500, 30_000, move |t| pos_stream(t).prop_map(|xs| Case::of(Spec::WelfordRolling(echo()), xs)).boxed(), welford_q).with_shard(100),
        Clause::generated("C13", "C13/WelfordRolling/long/f64", "streams of 2e3 / 2e4 / 1.4e5 (thorough up to 1e6; past 2^16 and 2^17 samples) positive values derived from a generated seed: noise, random walk with plateaus, large level with tiny spread; f64 run vs exact integer accumulators at 256 evenly spaced steps and the end; tolerances 1e-9 max|x| (mean), 1e-9 max|x|^2 (variance), 3.3e-5 max|x| (std). Non-trivial: n >= 1000.", 48, 480, |tier| (any::<u64>(), prop_oneof![Just(2_000usize), Just(20_000usize), Just(tier.pick(140_000usize, 1_000_000usize))], 0i64..3).prop_map(|(s, len, shape)| Case { spec: Some(Spec::WelfordRolling(echo())), ints: vec![(s >> 1) as i64, len as i64, shape], a: Rat(1, 1), ..Default::default() }).boxed(), welford_long).with_shard(4),
        Clause::generated("C13", "C13/rolling/long/f64", "Drawdown and LnReturn over streams of 2e3 / 1.4e5 (thorough 1e6) positive values derived from a generated seed (noise, drifting walk with plateaus, large level with tiny spread), f64 run vs integer bookkeeping of the running peak / largest relative decline (4 eps) and ln of the quotient (1e-15 relative), at every step. Non-trivial: n >= 1000 and (Drawdown) >= 2 running peaks.", 24, 240, |tier| (any::<u64>(), prop_oneof![Just(2_000usize), Just(tier.pick(140_000usize, 1_000_000usize))], 0i64..3, 0i64..2).prop_map(|(s, len, shape, which)| Case { spec: Some(if which == 0 { Spec::Drawdown(echo()) } else { Spec::LnReturn(echo()) }), ints: vec![(s >> 1) as i64, len as i64, shape, which], a: Rat(1, 1), ..Default::default() }).boxed(), dd_ln_long).with_shard(4),
        Clause::generated("C13", "C13/Drawdown/batch/Q", format!("{srule} Oracle: max_j (peak_j - x_j)/peak_j with peak_j the running maximum, every step, exact. Non-trivial: >= 2 running peaks and a decline after a new peak that followed an earlier drawdown."), 2500, 50_000, move |t| pos_stream(t).prop_map(|xs| Case::of(Spec::Drawdown(echo()), xs)).boxed(), drawdown_check(true)).with_shard(200),
        Clause::generated("C13", "C13/Drawdown/batch/f64", format!("{srule} Same oracle on the f64 run, 4 eps. Half of the cases multiply every value by 2^e2, e2 in {{-80, -300, -1040, 300}} (units far below epsilon, down to subnormal inputs, and far above 2^53): the view is scale-free."), 2500, 50_000, pos_case_e2(Spec::Drawdown(echo())), drawdown_check(false)).with_shard(400),
        Clause::generated("C13", "C13/gated/Q", format!("{srule} WelfordRolling, Drawdown and LnReturn over a leaf that withholds its first k in 1..9 inputs: the answer does not change during the withheld updates and afterwards equals, step by step, the same view over Echo fed only the delivered values (whose agreement with the batch definition is the other clauses' subject)."), 1500, 20_000, move |t| (pos_stream(t), 0usize..3, 1i64..=9).prop_map(|(xs, w, k)| Case { spec: Some([Spec::WelfordRolling(echo()), Spec::Drawdown(echo()), Spec::LnReturn(echo())][w].clone()), xs, ints: vec![k], a: Rat(1, 1), ..Default::default() }).boxed(), gated_check).with_shard(100),
        Clause::generated("C13", "C13/LnReturn/batch/Q", format!("{srule} Oracle: nothing for the first value, then ln(x_t/x_(t-1)) (exact scalar's ln). Non-trivial: n >= 3."), 1200, 20_000, move |t| pos_stream(t).prop_map(|xs| Case::of(Spec::LnReturn(echo()), xs)).boxed(), lnreturn_check(true)).with_shard(100),
        Clause::generated("C13", "C13/LnReturn/batch/f64", format!("{srule} f64 run vs the exact ln of the exact quotient, 1e-15 relative. Half of the cases multiply every value by 2^e2, e2 in {{-80, -300, -1040, 300}}."), 1200, 20_000, pos_case_e2(Spec::LnReturn(echo())), lnreturn_check(false)).with_shard(100),
    ]
}
