//! C05 — RSI family equals gains/losses over the N most recent changes.
use super::common::*;
use crate::catalog::*;
use crate::core::*;
use crate::exec::*;
use crate::gen::{self, StreamCfg};
use crate::refs::{self, R};
use num::traits::{One, Zero};
use proptest::prelude::*;

fn views() -> Vec<DefView> {
    vec![
        DefView { name: "Rsi", mk: |n| Spec::Rsi(echo(), n), reference: refs::rsi, min_n: 1, irr: false, positive: false },
        DefView { name: "MyRSI", mk: |n| Spec::MyRsi(echo(), n), reference: refs::my_rsi, min_n: 1, irr: false, positive: false },
    ]
}

/// x and -x through the same view: Rsi(-x) = 100 - Rsi(x), MyRSI(-x) = -MyRSI(x) whenever the window is not flat
fn negation_check(name: &'static str) -> impl Fn(&Case) -> Verdict + Send + Sync {
    move |case: &Case| {
        let spec = case.spec();
        let n = spec.own_windows()[0];
        let h = bigs(&case.xs);
        let hn: Vec<R> = h.iter().map(|x| -x).collect();
        let (o1, o2) = (run_q(spec, &h), run_q(spec, &hn));
        let mut compared = 0;
        for t in 0..h.len() {
            // not flat: G + L != 0 over the N most recent values
            let (g, l) = refs::gains_losses(&h, t, n);
            if (&g + &l).is_zero() {
                continue;
            }
            match (&o1[t], &o2[t]) {
                (None, None) => {}
                (Some(a), Some(b)) => {
                    let (Some(a), Some(b)) = (a.fin(), b.fin()) else {
                        return Verdict::fail(format!("C05/{name}/negation/Q|value"), format!("{} step {t}: non-finite output; input {}", spec.show(), show_rats(&case.xs)));
                    };
                    let want = if name == "Rsi" { R::from_integer(100.into()) - a } else { -a.clone() };
                    if abs_diff(&want, b) > tol_q(&R::one()) {
                        return Verdict::fail(format!("C05/{name}/negation/Q|value"), format!("{} step {t}: view(x) = {}, view(-x) = {} (expected {}); input {}", spec.show(), show(a), show(b), show(&want), show_rats(&case.xs)));
                    }
                    compared += 1;
                }
                _ => return Verdict::fail(format!("C05/{name}/negation/Q|readiness"), format!("{} step {t}: readiness differs between x and -x; input {}", spec.show(), show_rats(&case.xs))),
            }
        }
        let (nt, l) = nontrivial_default(case, n);
        Verdict::pass(nt && compared > 0, l)
    }
}

/// streams built to contain what the statement names: monotone runs >= N+1, a spike that enters and leaves, flat after volatile
fn rsi_strategy(mk: fn(usize) -> Spec) -> impl Fn(Tier) -> BoxedStrategy<Case> + Send + Sync {
    move |tier: Tier| {
        (gen::window(tier, 1, 40, 200), gen::dyadic_scale(), 0usize..4)
            .prop_flat_map(move |(n, sc, shape)| {
                let base = gen::stream(StreamCfg::new(n).scale(sc).len(0, 4 * n + 8));
                (base, 1i64..200, 0usize..3).prop_map(move |(mut xs, amp, extra)| {
                    let last = xs.last().copied().unwrap_or(Rat(sc.0 * 100, sc.1));
                    let step = Rat(sc.0, sc.1);
                    match shape {
                        1 => {
                            // strictly rising run of N+1+extra values
                            for i in 1..=(n + 1 + extra) as i64 {
                                xs.push(Rat(last.0 + i * amp * step.0, last.1));
                            }
                        }
                        2 => {
                            for i in 1..=(n + 1 + extra) as i64 {
                                xs.push(Rat(last.0 - i * amp * step.0, last.1));
                            }
                        }
                        3 => {
                            // a spike, then a flat stretch long enough for it to leave the window
                            xs.push(Rat(last.0 + 1000 * amp * step.0, last.1));
                            for _ in 0..(n + 2 + extra) {
                                xs.push(last);
                            }
                        }
                        _ => {}
                    }
                    Case::of(mk(n), xs)
                })
            })
            .boxed()
    }
}

/// fz_single: view, N, stream; oracle = the exact definition clause
pub fn fuzz_decode(u: &mut arbitrary::Unstructured) -> Option<(String, Case)> {
    let vs = views();
    let vd = &vs[u.int_in_range(0..=vs.len() - 1).ok()?];
    let n = vd.min_n + u.int_in_range(0..=23usize).ok()?;
    let xs = crate::fuzzdec::stream(u, vd.positive, 160);
    Some((format!("C05/{}/definition/Q", vd.name), Case::of((vd.mk)(n), xs)))
}

pub fn clauses() -> Vec<Clause> {
    let mut v = vec![];
    let rule = "N in 1..40 (thorough ..200), dyadic grid, grammar stream of 0..4N+8 values optionally followed by a strictly rising / falling run of >= N+1 values or a spike followed by a flat stretch that lets it leave the window; output compared with the batch definition (G, L over the N most recent values, d = 0 for the first value; Rsi 100 when L = 0; MyRSI holds its previous output while G+L = 0, steps before any non-flat window exempt) at every step. Non-trivial: >= N+2 evictions and a non-constant stream.";
    for vd in views() {
        let name = vd.name;
        v.push(Clause::generated("C05", format!("C05/{name}/definition/Q"), rule, 2500, 60_000, rsi_strategy(vd.mk), def_check_q(format!("C05/{name}/definition/Q"), vd.clone())).with_shard(150));
        // f64: running sums of changes keep rounding residue of order eps * (largest magnitude) per update; the admissible error of
        // the ratio is that residue relative to G+L. Flat windows (G+L = 0) are exempt here: they are decided by C16.
        let scale: f64 = if name == "Rsi" { 100.0 } else { 1.0 };
        v.push(
            Clause::generated(
                "C05",
                format!("C05/{name}/definition/f64"),
                rule,
                2500,
                60_000,
                rsi_strategy(vd.mk),
                def_check_f64(
                    format!("C05/{name}/definition/f64"),
                    vd.clone(),
                    move |t, _r, _h, _maxabs| {
                        // steps with G+L < max|x|/4096 are exempt below, so the residue bound eps*max|x|*(t+1)/(G+L) is at most
                        // 4096*eps*(t+1); 1e-12 ~ 4500 eps leaves a wide margin
                        f(scale) * (f(1e-9) + f(4.1e-9) * R::from_integer(((t + 1) as i64).into()))
                    },
                    |t, h, n| {
                        // exempt: flat window, or G+L so small against the largest magnitude that the residue bound exceeds the tolerance budget
                        let (g, l) = refs::gains_losses(h, t, n);
                        let gl = &g + &l;
                        if gl.is_zero() {
                            return true;
                        }
                        let m = max_abs(h[..=t].iter());
                        gl < m * f(1.0 / 4096.0)
                    },
                ),
            )
            .with_shard(300),
        );
        v.push(Clause::generated("C05", format!("C05/{name}/long/Q"), "long histories: N in 1..8, 300..1200 values (tiled grammar stream); same batch definition at every step.", 40, 1000, def_strategy_long(vd.clone()), def_check_q(format!("C05/{name}/long/Q"), vd.clone())).with_shard(8));
        v.push(Clause::generated("C05", format!("C05/{name}/ultra/Q"), ULTRA_RULE, 2, 40, def_strategy_ultra(vd.clone()), def_check_ultra_q(format!("C05/{name}/ultra/Q"), vd.clone())).with_shard(2));
        v.push(Clause::generated("C05", format!("C05/{name}/chained/Q"), CHAINED_RULE, 500, 12_000, def_strategy_chained(vd.clone()), def_check_chained_q(format!("C05/{name}/chained/Q"), vd.clone())).with_shard(100));
        v.push(Clause::generated("C05", format!("C05/{name}/negation/Q"), "same generator; x and -x through two instances: Rsi(-x) = 100 - Rsi(x), MyRSI(-x) = -MyRSI(x) at every step whose window is not flat. Non-trivial: as above and at least one non-flat step compared.", 1200, 30_000, rsi_strategy(vd.mk), negation_check(name)).with_shard(150));
    }
    v
}
