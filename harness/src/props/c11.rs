//! C11 — Ehlers-style indicators follow their defining difference equations.
//! Oracle: crate code at Q (and f64) vs independent batch references (refs_ehlers.rs) evaluated at Q from the whole history.
use super::common::f;
use crate::catalog::*;
use crate::core::*;
use crate::exec::*;
use crate::gen::{self, StreamCfg};
use crate::q::{Q, XV};
use crate::refs::R;
use crate::refs_ehlers::{self as re, Angle, Ma, RefOut};
use num::traits::{One, Signed, Zero};
use proptest::prelude::*;

#[derive(Clone, Copy, Debug)]
enum Kind {
    SuperSmoother,
    Roofing,
    LaguerreFilter,
    LaguerreRsi,
    CyberCycle,
    TrendFlex,
    ReFlex,
    Fisher,
    Pfe,
}
const KINDS: [(Kind, &str, usize); 9] = [
    (Kind::SuperSmoother, "SuperSmoother", 1),
    (Kind::Roofing, "RoofingFilter", 2),
    (Kind::LaguerreFilter, "LaguerreFilter", 1),
    (Kind::LaguerreRsi, "LaguerreRSI", 1),
    (Kind::CyberCycle, "CyberCycle", 6),
    (Kind::TrendFlex, "TrendFlex", 3),
    (Kind::ReFlex, "ReFlex", 3),
    (Kind::Fisher, "EFT", 1),
    (Kind::Pfe, "PFE", 3),
];
const GAMMAS: [f64; 30] = [0.0, 0.1, 0.2, 0.3, 0.5, 0.6, 0.8, 0.9, 0.99, 0.999, 0.05, 0.15, 0.25, 0.35, 0.4, 0.45, 0.55, 0.65, 0.7, 0.75, 0.85, 0.93, 0.95, 0.96, 0.97, 0.975, 0.98, 0.985, 0.995, 0.9975];

fn ma_of(p: usize, m: usize) -> (Spec, Ma) {
    match p % 3 {
        0 => (Spec::Sma(echo(), m), Ma::Sma(m)),
        1 => (Spec::Ema(echo(), m), Ma::Ema(m)),
        _ => (Spec::Alma(echo(), m), Ma::Alma(m)),
    }
}
fn mk(kind: Kind, n: usize, p: usize, m: usize) -> Spec {
    match kind {
        Kind::SuperSmoother => Spec::SuperSmoother(echo(), n),
        Kind::Roofing => Spec::Roofing(echo(), n, m),
        Kind::LaguerreFilter => Spec::LaguerreFilter(echo(), GAMMAS[p % GAMMAS.len()]),
        Kind::LaguerreRsi => Spec::LaguerreRsi(echo(), n),
        Kind::CyberCycle => Spec::CyberCycle(echo(), n),
        Kind::TrendFlex => Spec::TrendFlex(echo(), n),
        Kind::ReFlex => Spec::ReFlex(echo(), n),
        Kind::Fisher => Spec::Eft(echo(), Box::new(ma_of(p, m).0), n),
        Kind::Pfe => Spec::Pfe(echo(), Box::new(ma_of(p, m).0), n),
    }
}
/// reference variants at the exact scalar (two spellings of the constant 1.414 pi where the sources differ)
fn reference<T: Scalar>(kind: Kind, n: usize, p: usize, m: usize, x: &[T]) -> Vec<RefOut<T>> {
    match kind {
        Kind::SuperSmoother => vec![re::super_smoother(x, n, Angle::Product, Angle::Literal), re::super_smoother(x, n, Angle::Product, Angle::Product)],
        Kind::Roofing => vec![re::roofing(x, n, m, Angle::Literal, Angle::Product, Angle::Literal), re::roofing(x, n, m, Angle::Product, Angle::Product, Angle::Product)],
        Kind::LaguerreFilter => vec![re::laguerre_filter(x, <T as num::NumCast>::from(GAMMAS[p % GAMMAS.len()]).unwrap())],
        Kind::LaguerreRsi => vec![re::laguerre_rsi(x, n)],
        Kind::CyberCycle => vec![re::cyber_cycle(x, n)],
        Kind::TrendFlex => vec![re::trend_flex(x, n)],
        Kind::ReFlex => vec![re::re_flex(x, n)],
        Kind::Fisher => vec![re::fisher(x, n, ma_of(p, m).1)],
        Kind::Pfe => vec![re::pfe(x, n, ma_of(p, m).1)],
    }
}

fn strategy(ki: usize) -> impl Fn(Tier) -> BoxedStrategy<Case> + Send + Sync {
    move |tier: Tier| {
        let (kind, _, min_n) = KINDS[ki];
        let heavy = matches!(kind, Kind::TrendFlex | Kind::ReFlex | Kind::Roofing | Kind::SuperSmoother);
        (gen::window(tier, min_n, if heavy { 16 } else { 24 }, if heavy { 64 } else { 200 }), 0usize..30, 1usize..=9, gen::dyadic_scale_wide())
            .prop_flat_map(move |(n, p, m, sc)| {
                let len = if heavy { 3 * n + 30 } else { 6 * n + 40 };
                gen::stream(StreamCfg::new(n).scale(sc).len(0, len).kmax(2048)).prop_map(move |xs| Case { spec: Some(mk(kind, n, p, m)), xs, ints: vec![ki as i64, n as i64, p as i64, m as i64], a: Rat(1, 1), ..Default::default() })
            })
            .boxed()
    }
}

fn check(exact: bool) -> impl Fn(&Case) -> Verdict + Send + Sync {
    move |case: &Case| {
        let (ki, n, p, m) = (case.ints[0] as usize, case.ints[1] as usize, case.ints[2] as usize, case.ints[3] as usize);
        let (kind, name, _) = KINDS[ki];
        let spec = case.spec();
        let sc = if exact { "Q" } else { "f64" };
        let id = format!("C11/{name}/definition/{sc}");
        let h = bigs(&case.xs);
        let xq: Vec<Q> = h.iter().map(qv).collect();
        let refs = reference(kind, n, p, m, &xq);
        let outs: Vec<Option<XV>> = if exact { run_q(spec, &h) } else { run_f64(spec, &f64s(&case.xs)).into_iter().map(|o| o.map(XV::from_f64)).collect() };
        let maxabs = {
            let mut mx = R::zero();
            h.iter()
                .map(|x| {
                    if x.abs() > mx {
                        mx = x.abs();
                    }
                    mx.clone()
                })
                .collect::<Vec<_>>()
        };
        let normalised = matches!(kind, Kind::LaguerreRsi | Kind::TrendFlex | Kind::ReFlex | Kind::Fisher | Kind::Pfe);
        let mut compared = 0;
        let mut exempt = 0;
        let mut distinct = std::collections::BTreeSet::new();
        for t in 0..h.len() {
            if refs[0].open[t] {
                exempt += 1;
                continue;
            }
            // the definitions are homogeneous in the input unit: tolerances and conditioning are relative to the largest input seen
            let scale = if exact { &maxabs[t] + R::one() } else { maxabs[t].clone() };
            if !exact && normalised {
                // a ratio whose normalising denominator has all but vanished is ill-conditioned in floating point (C16's subject)
                if let Some(Some(d)) = refs[0].denom.get(t) {
                    if let Some(d) = d.extract().fin() {
                        if d.abs() < f(1e-6) * &scale {
                            exempt += 1;
                            continue;
                        }
                    }
                }
            }
            let wants: Vec<Option<XV>> = refs.iter().map(|r| r.out[t].map(|q| q.extract())).collect();
            let got = &outs[t];
            let ok = match got {
                None => wants.iter().any(|w| w.is_none()),
                Some(g) => {
                    let Some(g) = g.fin() else {
                        return Verdict::fail(format!("{id}|nonfinite"), format!("{} step {t}: reported {}; input {}", spec.show(), g.show(), show_rats(&case.xs)));
                    };
                    distinct.insert(show(g));
                    let tol = if exact {
                        tol_q_irr(&scale)
                    } else if normalised {
                        f(1e-6) * (R::one() + g.abs())
                    } else {
                        f(1e-9) * &scale
                    };
                    let ws: Vec<&R> = wants.iter().filter_map(|w| w.as_ref().and_then(|v| v.fin())).collect();
                    if ws.len() != wants.len() {
                        false
                    } else {
                        let lo = ws.iter().min().unwrap();
                        let hi = ws.iter().max().unwrap();
                        // inside the band spanned by the admissible spellings of the constants, widened by the tolerance
                        g >= &(*lo - &tol) && g <= &(*hi + &tol)
                    }
                }
            };
            if !ok {
                let aspect = if got.is_some() != wants[0].is_some() { "readiness" } else { "value" };
                let exact_ok = if exact { false } else { crate::q::arena_reset(); matches!(check(true)(case), Verdict::Pass { .. }) };
                return Verdict::fail(
                    format!("{id}|{aspect}{}", if exact_ok { "|exact_ok" } else { "" }),
                    format!("{} step {t}: reported {} but the batch re-evaluation of its difference equations gives {}; input {}", spec.show(), show_opt(got), wants.iter().map(show_opt).collect::<Vec<_>>().join(" / "), show_rats(&case.xs)),
                );
            }
            compared += 1;
        }
        let mut l: Vec<String> = refs[0].branches.iter().map(|b| format!("branch:{b}")).collect();
        if exempt > 0 {
            l.push("open_or_ill_conditioned_steps".into());
        }
        l.extend(gen::shape_labels(&case.xs, n).into_iter().filter(|s| s == "flat_window" || s == "tie" || s == "shorter_than_N"));
        Verdict::pass(compared >= n + 2 && distinct.len() >= 3, l)
    }
}

/// very long f64 runs (past 2^16 and 2^17 updates): the crate's code at f64 against the same batch re-evaluation of the
/// difference equations carried out at f64 (an independent transcription; both are stable recursions, so they differ by rounding
/// noise only). ints = [kind, n, p, m, seed, len, shape]; inputs on the 1/8 grid.
fn ultra_check(case: &Case) -> Verdict {
    let (ki, n, p, m) = (case.ints[0] as usize, case.ints[1] as usize, case.ints[2] as usize, case.ints[3] as usize);
    let (seed, len, shape) = (case.ints[4] as u64, case.ints[5] as usize, case.ints[6]);
    let (kind, name, _) = KINDS[ki];
    let spec = case.spec();
    let id = format!("C11/{name}/ultra/f64");
    let xs: Vec<f64> = gen::ultra_stream(seed, len, shape).into_iter().map(|k| k as f64 / 8.0).collect();
    let refs = reference::<f64>(kind, n, p, m, &xs);
    let outs = run_f64(spec, &xs);
    let normalised = matches!(kind, Kind::LaguerreRsi | Kind::TrendFlex | Kind::ReFlex | Kind::Fisher | Kind::Pfe);
    let mut mx = 0.0f64;
    let (mut compared, mut exempt, mut beyond) = (0usize, 0usize, 0usize);
    for t in 0..len {
        mx = mx.max(xs[t].abs());
        if refs[0].open[t] {
            exempt += 1;
            continue;
        }
        if normalised {
            if let Some(Some(d)) = refs[0].denom.get(t) {
                if d.abs() < 1e-6 * mx {
                    exempt += 1;
                    continue;
                }
            }
        }
        let wants: Vec<Option<f64>> = refs.iter().map(|r| r.out[t]).collect();
        let ok = match outs[t] {
            None => wants.iter().any(|w| w.is_none()),
            Some(g) => {
                if !g.is_finite() {
                    return Verdict::fail(format!("{id}|nonfinite"), format!("{} after {} updates: reported {g} (stream: seed {seed}, len {len}, shape {shape}, grid 1/8)", spec.show(), t + 1));
                }
                let tol = if normalised { 1e-6 * (1.0 + g.abs()) } else { 1e-9 * mx };
                if wants.iter().any(|w| w.map_or(true, |v| !v.is_finite())) {
                    false
                } else {
                    let lo = wants.iter().flatten().fold(f64::INFINITY, |a, b| a.min(*b));
                    let hi = wants.iter().flatten().fold(f64::NEG_INFINITY, |a, b| a.max(*b));
                    g >= lo - tol && g <= hi + tol
                }
            }
        };
        if !ok {
            let aspect = if outs[t].is_some() != wants[0].is_some() { "readiness" } else { "value" };
            return Verdict::fail(format!("{id}|{aspect}"), format!("{} after {} updates: reported {:?} but the batch re-evaluation of its difference equations (at f64) gives {:?} (stream: seed {seed}, len {len}, shape {shape}, grid 1/8; inputs since {}: {:?})", spec.show(), t + 1, outs[t], wants, t.saturating_sub(8), &xs[t.saturating_sub(8)..=t]));
        }
        compared += 1;
        if t >= 1 << 16 {
            beyond += 1;
        }
    }
    let mut l = vec![format!("shape_{shape}")];
    if exempt > 0 {
        l.push("open_or_ill_conditioned_steps".into());
    }
    Verdict::pass(compared >= 1000 && beyond >= 100, l)
}
fn ultra_strategy(ki: usize) -> impl Fn(Tier) -> BoxedStrategy<Case> + Send + Sync {
    move |tier: Tier| {
        let (kind, _, min_n) = KINDS[ki];
        (prop_oneof![3 => min_n..=min_n + 12, 1 => 20usize..=64], 0usize..30, 1usize..=9, any::<u64>(), 0i64..4)
            .prop_map(move |(n, p, m, seed, shape)| Case { spec: Some(mk(kind, n, p, m)), ints: vec![ki as i64, n as i64, p as i64, m as i64, (seed >> 1) as i64, tier.pick(135_000, 1_100_000) as i64, shape], a: Rat(1, 1), ..Default::default() })
            .boxed()
    }
}

/// fz_single: kind, N, parameter, M, scalar, stream
pub fn fuzz_decode(u: &mut arbitrary::Unstructured) -> Option<(String, Case)> {
    let ki = u.int_in_range(0..=KINDS.len() - 1).ok()?;
    let (kind, name, min_n) = KINDS[ki];
    let n = min_n + u.int_in_range(0..=19usize).ok()?;
    let (p, m) = (u.int_in_range(0..=29usize).ok()?, 1 + u.int_in_range(0..=8usize).ok()?);
    let exact = u.int_in_range(0..=1u8).ok()? == 0;
    let xs = crate::fuzzdec::stream(u, false, 200);
    Some((format!("C11/{name}/definition/{}", if exact { "Q" } else { "f64" }), Case { spec: Some(mk(kind, n, p, m)), xs, ints: vec![ki as i64, n as i64, p as i64, m as i64], a: Rat(1, 1), ..Default::default() }))
}

pub fn clauses() -> Vec<Clause> {
    let mut v = vec![];
    for (ki, (kind, name, min_n)) in KINDS.iter().enumerate() {
        let heavy = matches!(kind, Kind::TrendFlex | Kind::ReFlex | Kind::Roofing | Kind::SuperSmoother);
        let rule = format!("N from the view's minimum ({min_n}) to {} (thorough {}), gamma grid / moving average in {{Sma, Ema, Alma}}(1..9) / Roofing M in 1..9; grammar stream of 0..{} values on a dyadic grid (flats, steps, ties, spikes). The crate's code at the exact scalar is compared at every step with a batch re-evaluation of the difference equations from the whole history (band spanned by the two spellings 1.414*pi / 4.4422 of the constant where the sources differ, widened by 2^-150 x scale). Labels list the branches of the piecewise definition that were taken. Non-trivial: >= N+2 steps compared and >= 3 distinct outputs.", if heavy { 16 } else { 24 }, if heavy { 64 } else { 200 }, if heavy { "3N+30" } else { "6N+40" });
        v.push(Clause::generated("C11", format!("C11/{name}/definition/Q"), rule.clone(), if heavy { 400 } else { 1200 }, if heavy { 8000 } else { 30_000 }, strategy(ki), check(true)).with_shard(if heavy { 25 } else { 100 }));
        v.push(Clause::generated("C11", format!("C11/{name}/definition/f64"), format!("{rule} f64 leg: the crate's code at f64 against the same exact reference; tolerance 1e-9 x (max|x| + 1) for the linear filters, 1e-6 (1 + |value|) for the normalised indicators, steps whose normalising denominator is below 1e-6 x scale exempt (counted)."), if heavy { 600 } else { 1500 }, if heavy { 12_000 } else { 40_000 }, strategy(ki), check(false)).with_shard(if heavy { 40 } else { 150 }));
        v.push(Clause::generated("C11", format!("C11/{name}/ultra/f64"), "ultra-long histories: 135 000 values (thorough 1.1e6; past 2^16 and 2^17 updates) on the 1/8 grid derived from a generated seed (wide noise; walk with plateaus; zero stretches; ties around a level), N from the view's minimum to +12 (1 in 4: 20..64); the crate's code at f64 against an independent f64 transcription of the difference equations evaluated over the whole history, at every step; tolerance 1e-9 max|x| for the linear filters, 1e-6 (1 + |value|) for the normalised indicators, steps whose normalising denominator is below 1e-6 max|x| exempt. Non-trivial: >= 1000 steps compared, >= 100 of them beyond 2^16.", 2, 40, ultra_strategy(ki), ultra_check).with_shard(2));
    }
    v
}
