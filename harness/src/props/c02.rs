//! C02 — Window statistics equal their definition over exactly the last N values.
//! Oracle: batch references (refs.rs) from the raw history slice x[max(0,t-N+1)..=t] in BigRational, compared after
//! every update with the crate's own code run at the exact scalar Q (equality) and at f64 (rounding-noise tolerance).
use super::common::*;
use crate::catalog::*;
use crate::core::*;
use crate::exec::*;
use crate::gen::{self, StreamCfg};
use crate::q::{self, Q};
use crate::refs::{self, Want, R};
use num::traits::{One, Signed, Zero};
use proptest::prelude::*;
use sliding_features::View;

#[derive(Clone, Copy)]
enum Kind {
    /// output on the scale of the inputs, exact in Q
    Value,
    /// involves a square root (Q: 2^-150 relative tolerance)
    Std,
    /// ratio by the window's std
    StdRatio,
    /// unbounded ratio of inputs (Roc)
    Ratio,
    /// dimensionless in [-1,1] / [0,1]
    Unit,
}
struct ViewDef {
    name: &'static str,
    mk: fn(usize) -> Spec,
    reference: fn(&[R], usize) -> Vec<Want>,
    kind: Kind,
}
const VIEWS: [ViewDef; 10] = [
    ViewDef { name: "Sma", mk: |n| Spec::Sma(echo(), n), reference: refs::sma, kind: Kind::Value },
    ViewDef { name: "Cumulative", mk: |n| Spec::Cumulative(echo(), n), reference: refs::cumulative, kind: Kind::Value },
    ViewDef { name: "Min", mk: |n| Spec::Min(echo(), n), reference: refs::min, kind: Kind::Value },
    ViewDef { name: "Max", mk: |n| Spec::Max(echo(), n), reference: refs::max, kind: Kind::Value },
    ViewDef { name: "WelfordOnline", mk: |n| Spec::WelfordOnline(echo(), n), reference: refs::welford_std, kind: Kind::Std },
    ViewDef { name: "HLNormalizer", mk: |n| Spec::HlNormalizer(echo(), n), reference: refs::hl_normalizer, kind: Kind::Unit },
    ViewDef { name: "Roc", mk: |n| Spec::Roc(echo(), n), reference: refs::roc, kind: Kind::Ratio },
    ViewDef { name: "BinaryEntropy", mk: |n| Spec::BinaryEntropy(echo(), n), reference: refs::binary_entropy, kind: Kind::Unit },
    ViewDef { name: "Vst", mk: |n| Spec::Vst(echo(), n), reference: refs::vst, kind: Kind::StdRatio },
    ViewDef { name: "Vsct", mk: |n| Spec::Vsct(echo(), n), reference: refs::vsct, kind: Kind::StdRatio },
];

fn strategy(mk: fn(usize) -> Spec) -> impl Fn(Tier) -> BoxedStrategy<Case> + Send + Sync {
    move |tier: Tier| {
        (gen::window(tier, 1, 40, 300), gen::dyadic_scale_wide())
            .prop_flat_map(move |(n, sc)| gen::stream_nz(StreamCfg::new(n).scale(sc).len(0, 5 * n + 8)).prop_map(move |xs| Case::of(mk(n), xs)))
            .boxed()
    }
}
/// tiny units (f64 leg only): every value of a 1/8-grid stream (|k| <= 2048) times 2^e2, e2 = -150 (far below epsilon, squares
/// still normal) or, for the views that neither square nor take roots, -1065 (the inputs are subnormal numbers)
fn strategy_tiny(vd: &'static ViewDef) -> impl Fn(Tier) -> BoxedStrategy<Case> + Send + Sync {
    move |tier: Tier| {
        let deep = !matches!(vd.kind, Kind::Std | Kind::StdRatio);
        (gen::window(tier, 1, 24, 100), prop_oneof![Just(-150i32), Just(if deep { -1065i32 } else { -400i32 })])
            .prop_flat_map(move |(n, e2)| gen::stream_nz(StreamCfg::new(n).scale(Rat(1, 8)).kmax(2048).len(0, 5 * n + 8)).prop_map(move |xs| Case { e2, ..Case::of((vd.mk)(n), xs) }))
            .boxed()
    }
}

/// long histories with small windows (300..1200 values, N <= 8): out of reach of the 5N+8 streams above
fn strategy_long(mk: fn(usize) -> Spec) -> impl Fn(Tier) -> BoxedStrategy<Case> + Send + Sync {
    move |tier: Tier| {
        (1usize..=8, gen::dyadic_scale_wide())
            .prop_flat_map(move |(n, sc)| gen::long_stream(StreamCfg::new(n).scale(sc).kmax(512), 300, tier.pick(1200, 5000)).prop_map(move |xs| Case::of(mk(n), xs)))
            .boxed()
    }
}

fn labels_for(case: &Case, n: usize) -> (bool, Vec<String>) {
    let l = gen::shape_labels(&case.xs, n);
    let distinct_vals = {
        let mut v: Vec<_> = case.xs.iter().map(|r| r.big()).collect();
        v.sort();
        v.dedup();
        v.len()
    };
    // non-trivial: at least N+2 evictions happened and the stream is not constant
    let nontrivial = case.xs.len() >= 2 * n + 2 && distinct_vals >= 2;
    (nontrivial, l)
}

fn check_q(vd: &'static ViewDef) -> impl Fn(&Case) -> Verdict + Send + Sync {
    move |case: &Case| {
        let spec = case.spec();
        let n = spec.own_windows()[0];
        let h = bigs(&case.xs);
        let id = format!("C02/{}/{}/Q", vd.name, if case.xs.len() >= 300 { "long" } else { "definition" });
        let maxabs = running_max_abs(&h);
        let wants = (vd.reference)(&h, n);
        // run the view; WelfordOnline additionally exposes mean() and variance()
        let mut v = build::<Q>(spec);
        let mut outs = Vec::with_capacity(h.len());
        let (wm, wv) = if vd.name == "WelfordOnline" { (refs::welford_mean(&h, n), refs::welford_var(&h, n)) } else { (vec![], vec![]) };
        for (t, x) in h.iter().enumerate() {
            v.update(qv(x));
            outs.push(v.last().map(|o| o.extract()));
            if vd.name == "WelfordOnline" {
                let scale = &maxabs[t] + R::one();
                let m = v.welford_mean().map(|o| o.extract());
                let var = v.welford_variance().map(|o| o.extract());
                let ok_m = m.as_ref().and_then(|x| x.fin()).map(|x| abs_diff(x, &wm[t]) <= tol_q(&scale));
                if ok_m != Some(true) {
                    return Verdict::fail(format!("{id}|mean"), format!("{} step {t}: mean() = {:?} expected {} over the last {} values; input {}", spec.show(), m.map(|x| x.show()), show(&wm[t]), n.min(t + 1), show_rats(&case.xs)));
                }
                let ok_v = var.as_ref().and_then(|x| x.fin()).map(|x| abs_diff(x, &wv[t]) <= tol_q(&(&scale * &scale)));
                if ok_v != Some(true) {
                    return Verdict::fail(format!("{id}|variance"), format!("{} step {t}: variance() = {:?} expected {}; input {}", spec.show(), var.map(|x| x.show()), show(&wv[t]), show_rats(&case.xs)));
                }
            }
        }
        let tol = |t: usize| -> R {
            let scale = &maxabs[t] + R::one();
            match vd.kind {
                Kind::Value | Kind::Ratio => tol_q(&scale),
                Kind::Unit if vd.name == "HLNormalizer" => tol_q(&scale),
                _ => tol_q_irr(&(&scale * &scale)),
            }
        };
        match compare_q(&outs, &wants, &tol) {
            Ok(_) => {
                let (nt, l) = labels_for(case, n);
                Verdict::pass(nt, l)
            }
            Err(m) => Verdict::fail(format!("{id}|{}", m.aspect), fail_msg(spec, "Q", &case.xs, &m)),
        }
    }
}

fn check_f64(vd: &'static ViewDef) -> impl Fn(&Case) -> Verdict + Send + Sync {
    move |case: &Case| {
        let spec = case.spec();
        let n = spec.own_windows()[0];
        let h = bigs_e(&case.xs, case.e2);
        let xs = f64s_e(&case.xs, case.e2);
        // tolerances are relative to the largest input seen so far plus one grid unit (never an absolute floor: the
        // definitions are homogeneous in the unit), plus two subnormal ulps for quotients formed in the subnormal range
        let unit = grid_unit(&case.xs, case.e2) + f(1e-323);
        let id = format!("C02/{}/{}/f64", vd.name, if case.e2 != 0 { "tiny_unit" } else if case.xs.len() >= 300 { "long" } else { "definition" });
        let maxabs = running_max_abs(&h);
        let mut wants = (vd.reference)(&h, n);
        if matches!(vd.kind, Kind::StdRatio) {
            // ratios by a nearly vanishing std are ill-conditioned in floating point: those windows belong to C16
            let vars = refs::welford_var(&h, n);
            for t in 0..wants.len() {
                let thr = f(1e-6) * &maxabs[t] * &maxabs[t];
                if vars[t] < thr && !vars[t].is_zero() {
                    wants[t] = Want::Open;
                } else if vars[t].is_zero() {
                    // exactly flat window: the f64 variance is rounding residue of what left the window, not 0 (C16)
                    wants[t] = Want::Open;
                }
            }
        }
        let mut v = build::<f64>(spec);
        let mut outs = Vec::with_capacity(xs.len());
        for (t, x) in xs.iter().enumerate() {
            v.update(*x);
            outs.push(v.last());
            if vd.name == "WelfordOnline" {
                let mag = &maxabs[t] + &unit;
                let wm = refs::mean(refs::window(&h, t, n));
                let wv = refs::sample_var(refs::window(&h, t, n));
                let m = v.welford_mean().unwrap();
                let var = v.welford_variance().unwrap();
                if !m.is_finite() || abs_diff(&f(m), &wm) > f(1e-9) * &mag {
                    return Verdict::fail(format!("{id}|mean"), format!("{} step {t}: mean() = {m:e} expected {}; input {}", spec.show(), show(&wm), show_rats(&case.xs)));
                }
                if !var.is_finite() || abs_diff(&f(var), &wv) > f(1e-9) * &mag * &mag {
                    return Verdict::fail(format!("{id}|variance"), format!("{} step {t}: variance() = {var:e} expected {}; input {}", spec.show(), show(&wv), show_rats(&case.xs)));
                }
            }
        }
        let tol = |t: usize, r: &R| -> R {
            let mag = &maxabs[t] + &unit;
            match vd.kind {
                Kind::Value => f(1e-9) * mag + f(1e-323),
                Kind::Std => f(3.3e-5) * mag, // sqrt of the 1e-9*mag^2 variance tolerance
                Kind::StdRatio => f(1e-6) * (R::one() + r.abs()),
                Kind::Ratio => f(1e-9) * (R::one() + r.abs()),
                Kind::Unit => f(1e-9),
            }
        };
        match compare_f64(&outs, &wants, &tol) {
            Ok(open) => {
                let (nt, mut l) = labels_for(case, n);
                if open > 0 {
                    l.push("ill_conditioned_steps_exempt".into());
                }
                Verdict::pass(nt, l)
            }
            Err(m) => {
                // does the same case satisfy the oracle in exact arithmetic? (numerical vs algorithmic failure)
                q::arena_reset();
                let exact_ok = matches!(check_q(vd)(case), Verdict::Pass { .. });
                Verdict::fail(format!("{id}|{}{}", m.aspect, if exact_ok { "|exact_ok" } else { "" }), format!("{}{}", fail_msg(spec, "f64", &case.xs, &m), if case.e2 != 0 { format!(" (every input times 2^{})", case.e2) } else { String::new() }))
            }
        }
    }
}

/// very long f64 runs (past 2^16 and 2^17 updates); ints = [seed, len, shape]. The definition is evaluated at the checkpoints of
/// gen::ultra_checkpoints from the last N+2 values only (every C02 view is a function of the last N+1 values).
fn check_ultra(vd: &'static ViewDef) -> impl Fn(&Case) -> Verdict + Send + Sync {
    move |case: &Case| {
        let spec = case.spec();
        let n = spec.own_windows()[0];
        let (seed, len, shape) = (case.ints[0] as u64, case.ints[1] as usize, case.ints[2]);
        let id = format!("C02/{}/ultra/f64", vd.name);
        let ks = gen::ultra_stream(seed, len, shape);
        // the batch reference costs O(N^2) exact operations per checkpoint: the number of checkpoints shrinks with N
        let cps = gen::ultra_checkpoints(seed, len, n, (400_000 / (n * n / 2 + 16 * n)).clamp(12, 200));
        let mut v = build::<f64>(spec);
        let mut at: Vec<(usize, Option<f64>, Option<f64>, Option<f64>)> = Vec::with_capacity(cps.len());
        let mut ci = 0;
        for (t, k) in ks.iter().enumerate() {
            v.update(*k as f64 / 8.0);
            if ci < cps.len() && cps[ci] == t {
                at.push((t, v.last(), v.welford_mean(), v.welford_variance()));
                ci += 1;
            }
        }
        let mag = R::from_integer((ks.iter().map(|k| k.abs()).max().unwrap_or(0)).into()) / R::from_integer(8.into()) + R::one();
        let mut compared = 0;
        for (t, out, wm, wv) in at {
            let s = t.saturating_sub(n + 1);
            let h: Vec<R> = ks[s..=t].iter().map(|k| R::new((*k).into(), 8.into())).collect();
            if vd.name == "Roc" && h.iter().any(|x| x.is_zero()) {
                continue; // Roc holds its previous value over a zero reference: not a function of the slice alone
            }
            let want = (vd.reference)(&h, n).pop().unwrap();
            let win = refs::window(&h, h.len() - 1, n);
            if matches!(vd.kind, Kind::StdRatio) {
                let var = refs::sample_var(win);
                if var < f(1e-6) * &mag * &mag {
                    continue; // ill-conditioned or flat window: C16's subject
                }
            }
            let tol = |_: usize, r: &R| -> R {
                match vd.kind {
                    Kind::Value => f(1e-9) * &mag,
                    Kind::Std => f(3.3e-5) * &mag,
                    Kind::StdRatio => f(1e-6) * (R::one() + r.abs()),
                    Kind::Ratio => f(1e-9) * (R::one() + r.abs()),
                    Kind::Unit => f(1e-9),
                }
            };
            if let Err(m) = compare_f64(&[out], &[want], &tol) {
                return Verdict::fail(format!("{id}|{}", m.aspect), format!("{} [f64] after {} updates ({}): {}; the last {} inputs were {} (stream: seed {seed}, len {len}, shape {shape}, grid 1/8)", spec.show(), t + 1, m.aspect, m.detail, h.len(), show_bigs(&h)));
            }
            if vd.name == "WelfordOnline" {
                let (em, ev) = (refs::mean(win), refs::sample_var(win));
                match (wm, wv) {
                    (Some(m), Some(var)) if m.is_finite() && var.is_finite() && abs_diff(&f(m), &em) <= f(1e-9) * &mag && abs_diff(&f(var), &ev) <= f(1e-9) * &mag * &mag => {}
                    other => return Verdict::fail(format!("{id}|mean_variance"), format!("{} after {} updates: (mean(), variance()) = {other:?} expected ({}, {}) (stream: seed {seed}, len {len}, shape {shape})", spec.show(), t + 1, show(&em), show(&ev))),
                }
            }
            compared += 1;
        }
        Verdict::pass(compared >= 8 && len > 70_000, vec![format!("shape_{shape}"), format!("N_{}", if n <= 8 { "le8" } else if n <= 64 { "le64" } else { "gt64" })])
    }
}
fn strategy_ultra(mk: fn(usize) -> Spec) -> impl Fn(Tier) -> BoxedStrategy<Case> + Send + Sync {
    move |tier: Tier| {
        (prop_oneof![3 => 1usize..=8, 2 => 9usize..=40, 1 => 41usize..=130], any::<u64>(), 0i64..4)
            .prop_map(move |(n, seed, shape)| Case { spec: Some(mk(n)), ints: vec![(seed >> 1) as i64, tier.pick(135_000, 1_100_000) as i64, shape], a: Rat(1, 1), ..Default::default() })
            .boxed()
    }
}

/// fz_single: view, N in 1..40, scalar (Q one time in three), stream of up to 400 values
pub fn fuzz_decode(u: &mut arbitrary::Unstructured) -> Option<(String, Case)> {
    let vd = &VIEWS[u.int_in_range(0..=VIEWS.len() - 1).ok()?];
    let n = 1 + u.int_in_range(0..=39usize).ok()?;
    let exact = u.int_in_range(0..=2u8).ok()? == 0;
    let xs = crate::fuzzdec::stream(u, false, 160);
    Some((format!("C02/{}/definition/{}", vd.name, if exact { "Q" } else { "f64" }), Case::of((vd.mk)(n), xs)))
}

pub fn clauses() -> Vec<Clause> {
    let mut v = vec![];
    for vd in VIEWS.iter() {
        let rule = "N in 1..40 (thorough 1..300) with boundary bias, dyadic grid 2^-e, grammar stream of 0..5N+8 values (ties, zeros, negatives, flats, spikes, runs, shorter than N); compared with the batch definition at every step. Non-trivial: at least N+2 evictions and a non-constant stream; labels record evicts / tie / zero / negative / flat_window / extremum_evicted / shorter_than_N.";
        v.push(Clause::generated("C02", format!("C02/{}/definition/Q", vd.name), rule, 1500, 40_000, strategy(vd.mk), check_q(vd)).with_shard(150));
        v.push(Clause::generated("C02", format!("C02/{}/definition/f64", vd.name), rule, 1500, 40_000, strategy(vd.mk), check_f64(vd)).with_shard(300));
        if !matches!(vd.name, "Vst") {
            v.push(Clause::generated("C02", format!("C02/{}/tiny_unit/f64", vd.name), "tiny units: N in 1..24 (thorough ..100), grammar stream on the 1/8 grid (|k| <= 2048, zeros partly written as -0.0) with every value multiplied by 2^-150 or, for the views that neither square nor take roots, 2^-1065 (subnormal inputs; 2^-400 otherwise); f64 run against the batch definition, tolerances relative to the largest input (plus two subnormal ulps). The definitions are homogeneous in the unit: an absolute threshold or a test such as is_normal() in a view shows here.", 300, 8_000, strategy_tiny(vd), check_f64(vd)).with_shard(100));
        }
        let dv = DefView { name: vd.name, mk: vd.mk, reference: vd.reference, min_n: 1, irr: !(matches!(vd.kind, Kind::Value | Kind::Ratio) || vd.name == "HLNormalizer"), positive: false };
        v.push(Clause::generated("C02", format!("C02/{}/chained/Q", vd.name), CHAINED_RULE, 300, 8_000, def_strategy_chained(dv.clone()), def_check_chained_q(format!("C02/{}/chained/Q", vd.name), dv)).with_shard(100));
        let lrule = "long histories: N in 1..8, 300..1200 values (thorough ..5000) built by tiling a grammar stream (every other tile reversed, tiles shifted); same oracle at every step. Reaches defects that need hundreds of updates (periodic re-synchronisation, counters, wrapped buffers).";
        v.push(Clause::generated("C02", format!("C02/{}/long/Q", vd.name), lrule, 40, 1000, strategy_long(vd.mk), check_q(vd)).with_shard(8));
        v.push(Clause::generated("C02", format!("C02/{}/long/f64", vd.name), lrule, 60, 2000, strategy_long(vd.mk), check_f64(vd)).with_shard(12));
        let urule = "ultra-long histories: N in 1..130, 135 000 values (thorough 1.1e6) derived from a generated seed (wide noise; walk with plateaus; zero stretches; ties around a level) on the 1/8 grid, f64 run; the definition is evaluated from the last N+2 values at 12..200 checkpoints (fewer for large N): at every power of two from 2^16 on (where a narrowed counter wraps or saturates) and N+1 steps after it, the last steps, and seeded steps. Non-trivial: >= 8 checkpoints compared.";
        v.push(Clause::generated("C02", format!("C02/{}/ultra/f64", vd.name), urule, 2, 40, strategy_ultra(vd.mk), check_ultra(vd)).with_shard(2));
    }
    v
}
