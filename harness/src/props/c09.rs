//! C09 — Recursive filters are stable and have fading memory for every window length.
//! f64 throughout (steps cost nanoseconds, so horizons of 1e5 are free). Configurations are enumerated, inputs are derived
//! from the case's integers (impulse, worst-case sign pattern, noise, alternating, resonant, step; two prefixes + common tail).
use super::c10::n_grid;
use crate::catalog::*;
use crate::core::*;
use crate::gen;
use crate::runner::guarded;
use proptest::prelude::*;
use sliding_features::View;

/// gamma grid: every hundredth in [0, 0.99], then 0.995 and 0.999 (a defect confined to a band of gamma must not slip between grid points)
fn gammas() -> Vec<f64> {
    let mut v: Vec<f64> = (0..100).map(|i| i as f64 / 100.0).collect();
    v.extend([0.995, 0.999]);
    v
}
const N_GAMMAS: usize = 102;

#[derive(Clone, Copy, PartialEq)]
enum Class {
    Linear,
    /// bounded by construction: |out| <= bound
    Bounded(f64),
}
fn class_of(s: &Spec) -> Class {
    match s {
        Spec::Ema(..) | Spec::LaguerreFilter(..) | Spec::SuperSmoother(..) | Spec::Roofing(..) | Spec::CyberCycle(..) => Class::Linear,
        Spec::TrendFlex(..) | Spec::ReFlex(..) => Class::Bounded(5.0),
        Spec::LaguerreRsi(..) => Class::Bounded(1.0),
        Spec::Eft(..) => Class::Bounded(199f64.ln()),
        _ => Class::Linear,
    }
}
/// horizon T = 100 max(every window parameter of the chain, 1/(1-gamma), 25)
fn horizon(s: &Spec) -> usize {
    fn walk(s: &Spec, m: &mut f64) {
        for w in s.own_windows() {
            *m = m.max(w as f64);
        }
        if let Spec::LaguerreFilter(_, g) = s {
            *m = m.max(1.0 / (1.0 - g));
        }
        for c in s.children() {
            walk(c, m);
        }
    }
    let mut m = 25.0;
    walk(s, &mut m);
    (100.0 * m).ceil() as usize
}

fn configs(tier: Tier) -> Vec<Spec> {
    let mut v = vec![];
    for n in n_grid(tier) {
        v.push(Spec::Ema(echo(), n));
        v.push(Spec::SuperSmoother(echo(), n));
        for m in [1usize, 3, 10] {
            v.push(Spec::Roofing(echo(), n, m));
        }
        if n >= 3 {
            v.push(Spec::CyberCycle(echo(), n));
            v.push(Spec::TrendFlex(echo(), n));
            v.push(Spec::ReFlex(echo(), n));
        }
        if n >= 2 {
            v.push(Spec::LaguerreRsi(echo(), n));
            v.push(Spec::Eft(echo(), Box::new(Spec::Ema(echo(), 1 + n % 7)), n));
        }
    }
    for g in gammas() {
        v.push(Spec::LaguerreFilter(echo(), g));
    }
    v
}

fn run(spec: &Spec, xs: impl Iterator<Item = f64>) -> Result<Vec<Option<f64>>, String> {
    guarded(|| {
        let mut v = build::<f64>(spec);
        xs.map(|x| {
            v.update(x);
            v.last()
        })
        .collect()
    })
}
fn tagn(spec: &Spec) -> String {
    match spec {
        Spec::LaguerreFilter(_, g) => format!("LaguerreFilter:g={g}"),
        Spec::Roofing(_, n, m) => format!("RoofingFilter:{n}:{m}"),
        s => match s.own_windows().first() {
            Some(w) => format!("{}:{}", s.name(), w),
            None => s.name().to_string(),
        },
    }
}
fn noise(seed: u64, amp: f64) -> impl FnMut() -> f64 {
    let mut st = seed | 1;
    move || ((gen::splitmix(&mut st) % 2001) as f64 - 1000.0) / 1000.0 * amp
}

// ------------------------------------------------------------------------------------------------ (a) boundedness

fn bounded_cases(t: Tier) -> Vec<Case> {
    let mut out = vec![];
    for spec in configs(t) {
        for test in 0..5i64 {
            out.push(Case { spec: Some(spec.clone()), ints: vec![test], a: Rat(1, 1), ..Default::default() });
        }
    }
    out
}
fn bounded_check(case: &Case) -> Verdict {
    let spec = case.spec();
    let test = case.ints[0];
    let t_h = horizon(spec);
    let n = spec.max_window().max(2);
    let id = format!("C09/bounded|{}", tagn(spec));
    let fail = |k: &str, m: String| Verdict::fail(format!("{id}|{k}"), format!("{}: {m}", spec.show()));
    match class_of(spec) {
        Class::Linear => {
            // impulse response over 4T, measured after a lead of zeros that carries the view past its warm-up with zero state
            // (a first input of 0 also gives Ema / LaguerreFilter, which start from their first value, a zero state)
            let len = 4 * t_h;
            let lead = spec.sum_windows() + 8;
            let h: Vec<Option<f64>> = match run(spec, (0..lead + len).map(|t| if t == lead { 1.0 } else { 0.0 })) {
                Ok(h) => h[lead..].to_vec(),
                Err(p) => return fail("panic", p),
            };
            let mut head: f64 = 0.0;
            let mut tail: f64 = 0.0;
            let (mut b_t, mut b_4t) = (0.0f64, 0.0f64);
            for (t, o) in h.iter().enumerate() {
                if let Some(v) = o {
                    if !v.is_finite() {
                        return fail("nonfinite", format!("impulse response is {v} at step {t}"));
                    }
                    if t < t_h {
                        head = head.max(v.abs());
                        b_t += v.abs();
                    } else if t < 2 * t_h {
                        tail = tail.max(v.abs());
                    }
                    b_4t += v.abs();
                }
            }
            if test == 0 {
                if head > 0.0 && tail > 1e-6 * head {
                    return fail("no_decay", format!("impulse response has not decayed: max|h| on [T,2T] = {tail:e} vs {head:e} on [0,T], T = {t_h} (a pole on or outside the unit circle)"));
                }
                if b_4t > b_t * (1.0 + 1e-6) + 1e-300 {
                    return fail("bound_grows", format!("sum|h| grows with the stream length: {b_t:e} over T, {b_4t:e} over 4T"));
                }
                return Verdict::pass(head > 0.0, vec!["impulse".into()]);
            }
            // bounded inputs |x| <= 1 of length 4T: |y| <= sum|h| (the BIBO bound), attained by the worst-case sign pattern
            let xs: Vec<f64> = match test {
                1 => {
                    // worst case for the output at time L-1: x_t = sign h(L-1-t)
                    (0..len).map(|t| h[len - 1 - t].map(|v| if v >= 0.0 { 1.0 } else { -1.0 }).unwrap_or(1.0)).collect()
                }
                2 => {
                    let mut nz = noise(0xC09 + n as u64, 1.0);
                    (0..len).map(|_| nz()).collect()
                }
                3 => (0..len).map(|t| if t % 2 == 0 { 1.0 } else { -1.0 }).collect(),
                _ => (0..len).map(|t| if (t / n) % 2 == 0 { 1.0 } else { -1.0 }).collect(), // square wave of period 2N (resonant region)
            };
            let y: Vec<Option<f64>> = match run(spec, std::iter::repeat(0.0).take(lead).chain(xs.iter().copied())) {
                Ok(y) => y[lead..].to_vec(),
                Err(p) => return fail("panic", p),
            };
            let mut worst: f64 = 0.0;
            for (t, o) in y.iter().enumerate() {
                if let Some(v) = o {
                    if !v.is_finite() {
                        return fail("nonfinite", format!("bounded input (|x| <= 1) gave {v} at step {t}"));
                    }
                    worst = worst.max(v.abs());
                }
            }
            if worst > b_4t * (1.0 + 1e-9) + 1e-12 {
                return fail("exceeds_bibo", format!("bounded input (|x| <= 1, test {test}) gave |y| = {worst:e} > sum|h| = {b_4t:e}"));
            }
            if test == 1 {
                let last = y[len - 1].unwrap_or(0.0).abs();
                if last < b_4t * (1.0 - 1e-6) - 1e-12 {
                    return fail("bibo_not_attained", format!("worst-case input should attain sum|h| = {b_4t:e} at the last step, got {last:e}: the view is not the linear filter its impulse response describes"));
                }
            }
            Verdict::pass(worst > 0.0, vec![["impulse", "worst_case", "noise", "alternating", "square_2N"][test as usize].into()])
        }
        Class::Bounded(bound) => {
            let len = 4 * t_h;
            let xs: Vec<f64> = match test {
                0 => (0..len).map(|t| if t == 0 { 1.0 } else { 0.0 }).collect(),
                1 => (0..len).map(|t| if t < len / 2 { 0.0 } else { 1000.0 }).collect(), // step
                2 => {
                    let mut nz = noise(0xB0 + n as u64, 100.0);
                    (0..len).map(|_| 500.0 + nz()).collect()
                }
                3 => (0..len).map(|t| if t % 2 == 0 { 1.0 } else { -1.0 }).collect(),
                _ => (0..len).map(|t| (2.0 * std::f64::consts::PI * t as f64 / n as f64).sin() * 10.0).collect(), // resonant: period N
            };
            let y = match run(spec, xs.iter().copied()) {
                Ok(y) => y,
                Err(p) => return fail("panic", p),
            };
            let mut worst: f64 = 0.0;
            for (t, o) in y.iter().enumerate() {
                if let Some(v) = o {
                    if !v.is_finite() {
                        return fail("nonfinite", format!("bounded input (test {test}) gave {v} at step {t}"));
                    }
                    worst = worst.max(v.abs());
                    if v.abs() > bound * (1.0 + 1e-9) {
                        return fail("exceeds_bound", format!("output {v:e} at step {t} exceeds the analytic bound {bound} (test {test})"));
                    }
                }
            }
            Verdict::pass(worst > 0.0 || test == 0, vec![["impulse", "step", "noise", "alternating", "resonant"][test as usize].into()])
        }
    }
}

// ------------------------------------------------------------------------------------------------ (b) fading memory

fn fading_cases(t: Tier) -> Vec<Case> {
    let mut out = vec![];
    for spec in configs(t) {
        for variant in 0..3i64 {
            out.push(Case { spec: Some(spec.clone()), ints: vec![variant], a: Rat(1, 1), ..Default::default() });
        }
        // variant 4: the common tail is constant (two streams that become identical and flat): no persistent excitation to wash
        // a difference out, the view's own dynamics must do it
        out.push(Case { spec: Some(spec.clone()), ints: vec![4], a: Rat(1, 1), ..Default::default() });
        // variant 3: one prefix of 135 000 values (past 2^16 and 2^17 updates) against an empty one, for a subset of the windows
        if matches!(spec.max_window(), 0 | 3 | 5 | 16 | 64) {
            out.push(Case { spec: Some(spec.clone()), ints: vec![3], a: Rat(1, 1), ..Default::default() });
        }
    }
    out
}
fn fading_check_inner(spec: &Spec, variant: i64, seed: u64) -> Verdict {
    let t_h = horizon(spec);
    let n = spec.max_window().max(2);
    let id = format!("C09/{}|{}", if variant == 4 { "fading_flat_tail" } else { "fading" }, tagn(spec));
    // prefixes: different length, scale (up to 2^20 x) and shape; common persistently exciting tail (noise around a level)
    let (p1, p2): (Vec<f64>, Vec<f64>) = {
        let mut n1 = noise(seed ^ 0x11, 1.0);
        let mut n2 = noise(seed ^ 0x22, 1.0);
        match variant {
            0 => ((0..3 * n + 7).map(|_| 100.0 + 50.0 * n1()).collect(), vec![]),
            1 => ((0..5 * n).map(|_| (1u64 << 20) as f64 * (1.0 + n1())).collect(), (0..2 * n + 3).map(|_| 100.0 + n2()).collect()),
            3 => ((0..135_000).map(|_| 100.0 + 50.0 * n1()).collect(), vec![]),
            4 => ((0..3 * n + 7).map(|_| 100.0 + 50.0 * n1()).collect(), (0..2 * n + 3).map(|_| 100.0 - 30.0 * n2().abs()).collect()),
            _ => ((0..4 * n).map(|t| if t % 2 == 0 { 1000.0 } else { -1000.0 }).collect(), (0..n + 1).map(|_| 0.0).collect()),
        }
    };
    let scale = 100.0;
    let mut nz = noise(seed ^ 0x7A11, 0.5 * scale);
    let tail: Vec<f64> = (0..2 * t_h).map(|_| if variant == 4 { scale } else { scale + nz() }).collect();
    let r1 = run(spec, p1.iter().copied().chain(tail.iter().copied()));
    let r2 = run(spec, p2.iter().copied().chain(tail.iter().copied()));
    let (o1, o2) = match (r1, r2) {
        (Ok(a), Ok(b)) => (a, b),
        (Err(p), _) | (_, Err(p)) => return Verdict::fail(format!("{id}|panic"), format!("{}: {p}", spec.show())),
    };
    let out_scale = match class_of(spec) {
        Class::Linear => scale,
        Class::Bounded(b) => b,
    };
    let (mut early, mut late) = (0.0f64, 0.0f64);
    for j in 0..2 * t_h {
        let (a, b) = (o1[p1.len() + j], o2[p2.len() + j]);
        let d = match (a, b) {
            (Some(a), Some(b)) => {
                if !a.is_finite() || !b.is_finite() {
                    return Verdict::fail(format!("{id}|nonfinite"), format!("{}: non-finite output {a} / {b} at tail position {j}", spec.show()));
                }
                (a - b).abs()
            }
            (None, None) => 0.0,
            // readiness may differ only while one run is still warming up (first steps of the tail)
            _ => {
                if j >= t_h {
                    return Verdict::fail(format!("{id}|readiness"), format!("{}: readiness still differs {j} steps after the streams merged", spec.show()));
                }
                out_scale
            }
        };
        if j < t_h {
            early = early.max(d);
        } else {
            late = late.max(d);
        }
    }
    if late > 1e-6 * out_scale || (early > 0.0 && late > 1e-3 * early) {
        return Verdict::fail(format!("{id}|persists"), format!("{}: two streams that merged {t_h}..{} steps ago still differ by {late:e} (difference right after merging: {early:e}); the effect of early values does not die out (variant {variant})", spec.show(), 2 * t_h));
    }
    Verdict::pass(early > 1e-3 * out_scale, vec![format!("variant_{variant}")])
}
fn fading_check(case: &Case) -> Verdict {
    fading_check_inner(case.spec(), case.ints[0], 0x5EED + case.spec().max_window() as u64)
}

/// chains of two recursive views (sampled)
fn chain_case(tier: Tier) -> BoxedStrategy<Case> {
    let nmax = tier.pick(24, 200);
    fn wrap(k: usize, n: usize, g: usize, m: usize, inner: Spec) -> Spec {
        let i = Box::new(inner);
        match k {
            0 => Spec::Ema(i, n),
            1 => Spec::LaguerreFilter(i, gammas()[g]),
            2 => Spec::SuperSmoother(i, n),
            3 => Spec::Roofing(i, n, m),
            4 => Spec::CyberCycle(i, n),
            5 => Spec::TrendFlex(i, n),
            6 => Spec::ReFlex(i, n),
            7 => Spec::LaguerreRsi(i, n),
            _ => Spec::Eft(i, Box::new(Spec::Ema(echo(), m)), n),
        }
    }
    let one = move || (0usize..9, 3usize..=nmax, 0usize..N_GAMMAS, 1usize..=8);
    (one(), one(), 0i64..3, any::<u32>())
        .prop_map(|((k1, n1, g1, m1), (k2, n2, g2, m2), variant, seed)| Case { spec: Some(wrap(k1, n1, g1, m1, wrap(k2, n2, g2, m2, Spec::Echo))), ints: vec![variant, seed as i64], a: Rat(1, 1), ..Default::default() })
        .boxed()
}
fn chain_check(case: &Case) -> Verdict {
    let spec = case.spec();
    // boundedness of the chain on noise, then fading memory
    let t_h = horizon(spec);
    let mut nz = noise(case.ints[1] as u64, 100.0);
    match run(spec, (0..2 * t_h).map(|_| 500.0 + nz())) {
        Err(p) => return Verdict::fail(format!("C09/chain|{}|panic", spec.name()), format!("{}: {p}", spec.show())),
        Ok(y) => {
            if let Some((t, v)) = y.iter().enumerate().find_map(|(t, o)| o.filter(|v| !v.is_finite()).map(|v| (t, v))) {
                return Verdict::fail(format!("C09/chain|{}|nonfinite", spec.name()), format!("{}: bounded noise gave {v} at step {t}", spec.show()));
            }
        }
    }
    match fading_check_inner(spec, case.ints[0], case.ints[1] as u64) {
        Verdict::Fail { sig, msg } => Verdict::fail(sig.replace("C09/fading", "C09/chain"), msg),
        other => other,
    }
}

pub fn clauses() -> Vec<Clause> {
    vec![
        Clause::enumerated("C09", "C09/bounded/enumerated", "Enumerated: Ema, SuperSmoother, RoofingFilter(N, M in {1,3,10}), CyberCycle, TrendFlex, ReFlex (N >= 3), LaguerreRSI, EFT (N >= 2) for every N in 1..64 and 19 values in 72..1024 (thorough: every N to 256, then every 8th to 1024); LaguerreFilter for gamma in {0, .01, ..., .99, .995, .999}; horizon T = 100 max(windows, 1/(1-gamma), 25). Linear members: impulse response finite, max|h| on [T,2T] <= 1e-6 max|h| on [0,T], sum|h| does not grow from T to 4T; inputs with |x| <= 1 of length 4T (worst-case sign pattern x_t = sign h(L-1-t), noise, alternating, square wave of period 2N) stay within sum|h| and the worst case attains it. Non-linear members (TrendFlex, ReFlex <= 5; LaguerreRSI <= 1; |EFT| <= ln 199): finite and within the analytic bound on impulse, step, noise, alternating and resonant (period N) inputs of length 4T. Non-trivial: the response is not identically zero.", bounded_cases, bounded_check).with_shard(12),
        Clause::enumerated("C09", "C09/fading/enumerated", "Enumerated over the same configurations x 3 prefix pairs (50%-noise vs empty; 2^20 x larger vs small; alternating +-1000 vs zeros; and, for windows 3, 5, 16, 64 and every gamma, a 135 000-value noise prefix - past 2^16 and 2^17 updates - vs empty) followed by a common persistently exciting tail of 2T values (level 100, noise +-50): the maximum |out1 - out2| over tail positions [T,2T] must be <= 1e-6 x scale and <= 1e-3 x its maximum over [0,T]. Non-trivial: the two runs differed by > 1e-3 x scale right after merging.", fading_cases, fading_check).with_shard(12),
        Clause::generated("C09", "C09/chains/generated", "Generated chains of two recursive views (all 9 x 9 kinds, N in 3..24, thorough ..200): finite on bounded noise over 2T and fading memory as above, T from the largest parameter of the chain.", 400, 10_000, chain_case, chain_check).with_shard(8),
    ]
}
