//! Registry: property id -> clauses.
use crate::core::Clause;

pub mod c01;
pub mod c02;
pub mod c03;
pub mod c04;
pub mod c05;
pub mod c06;
pub mod c07;
pub mod c08;
pub mod c09;
pub mod c10;
pub mod c11;
pub mod c12;
pub mod c13;
pub mod c14;
pub mod c15;
pub mod c16;
pub mod c17;
pub mod c18;
pub mod common;

pub const PROPERTIES: [&str; 18] = ["C01", "C02", "C03", "C04", "C05", "C06", "C07", "C08", "C09", "C10", "C11", "C12", "C13", "C14", "C15", "C16", "C17", "C18"];

pub fn clauses(property: &str) -> Vec<Clause> {
    match property {
        "C01" => c01::clauses(),
        "C02" => c02::clauses(),
        "C03" => c03::clauses(),
        "C04" => c04::clauses(),
        "C05" => c05::clauses(),
        "C06" => c06::clauses(),
        "C07" => c07::clauses(),
        "C08" => c08::clauses(),
        "C09" => c09::clauses(),
        "C10" => c10::clauses(),
        "C11" => c11::clauses(),
        "C12" => c12::clauses(),
        "C13" => c13::clauses(),
        "C14" => c14::clauses(),
        "C15" => c15::clauses(),
        "C16" => c16::clauses(),
        "C17" => c17::clauses(),
        "C18" => c18::clauses(),
        _ => vec![],
    }
}

pub fn property_rule(property: &str) -> String {
    match property {
        "C01" => "composed chain vs stand-alone inner + stand-alone wrapper over Echo (bit-identical), Probe leaves for exactly-once in-order delivery, combining nodes present iff both children".into(),
        "C18" => "live heap bytes owned by a view (counting allocator) at stream lengths L, 4L, 16L over seven stream classes; bound in the window lengths".into(),
        "C16" => "the crate's generic code at f64 / f32 vs at the exact rational scalar on envelope streams (full runs, long runs with suffix checkpoints) and on flat-after-volatile tails".into(),
        "C17" => "twins, repeated last(), clones with same and divergent continuations; bit-exact".into(),
        "C02" => "windowed view run in exact arithmetic (and f64) vs the batch definition over exactly the last N raw values, every step".into(),
        "C03" => "two runs of the same view on histories with different prefixes and a common suffix agree once K suffix values are consumed".into(),
        "C04" => "Sma / Ema / Alma: span bounds, constant reproduction, monotonicity, affine equivariance, EMA recurrence, ALMA kernel definition".into(),
        "C05" => "Rsi / MyRSI at Q and f64 vs gains and losses over the N most recent values; negation relation".into(),
        "C06" => "CTI / NET / CoG at Q and f64 vs Pearson r, Kendall tau, CoG formula on full windows; negation and rank-invariance relations".into(),
        "C07" => "every reported value of the bounded indicators against its documented range on adversarial histories, f64 / f32 / Q, to 8 ulps of the bound".into(),
        "C08" => "readiness never reverts and every value is finite (enumerated singles, generated chains, long runs); warm-up table incl. gating leaves; no change when nothing is delivered".into(),
        "C09" => "impulse-response decay, attained BIBO bound, analytic bounds of the non-linear members, and two-stream fading memory, enumerated over every N".into(),
        "C10" => "three instances fed x, y and a x + b y: out_z = a out_x + b out_y exactly in Q; DC gain clauses enumerated over N".into(),
        "C11" => "nine Ehlers-style views at Q and f64 vs independent batch references of their difference equations, every step; branch signatures reported".into(),
        "C12" => "metamorphic pairs: x vs a x + b, a x, -x through two instances; exact in Q for rational a, b; bit-exact in f64 for a = 2^k and for negation".into(),
        "C13" => "WelfordRolling / Drawdown / LnReturn vs batch definitions over the whole history, exact and f64, long streams".into(),
        "C14" => "combinators and pure functions vs the operation applied to stand-alone twins of their children, bit-exact; history independence".into(),
        "C15" => "no unwind out of update()/last() for any constructed view, both cargo profiles".into(),
        _ => String::new(),
    }
}

pub fn property_assumptions(property: &str) -> Vec<String> {
    let mut v = vec![
        "the harness' Spec catalogue builds the crate's real view types (Box<dyn DynView<T>> as the chained View)".to_string(),
        "proptest 1.11 generators and shrinking; a run is a pure function of (/repo tree, VERIF_SEED, tier)".to_string(),
    ];
    match property {
        "C01" => {
            v.push("depth <= 3: the property is about one wrapper boundary; all pairs are enumerated, deeper trees are sampled".into());
            v.push("the moving average embedded in EFT / PFE sits over its own Echo and never sees raw input: its leaf is not a delivery probe".into());
            v.push("windows below a view's listed-finding threshold (CyberCycle, PFE < 3; EFT, Roofing < 2) are excluded by construction (they panic or diverge: C15)".into());
        }
        "C18" => {
            v.push("the vcheck binary installs a counting global allocator; readings are per thread, the view is built, driven and dropped on one thread and the measuring loop allocates nothing itself".into());
            v.push("'for ever' is explored to 16 L values (L = 8 sum(N) + 256; thorough 8 x that)".into());
        }
        "C16" => {
            v.push("'natural scale' S: largest input magnitude for value-like outputs (N x that for Cumulative), width of the documented range for bounded indicators ((N-1) for CoG, 2(N-1)/sqrt(N) for Vsct, 10 for TrendFlex/ReFlex), max(1, |exact|) for the unbounded ratios Vst, Roc, LnReturn".into());
            v.push("long-stream checkpoints rely on C03 (finite memory): the exact answer after 1e6 values is that of a fresh exact instance fed the last K+N values".into());
            v.push("exact runs of the recursive views use 320-bit floating rounding of the exact scalar after ~100 steps (error ~1e-90 on contractive recursions)".into());
        }
        "C17" => v.push("a tree containing Add cannot be cloned (Add does not implement Clone): the clone clause is skipped for it and counted".into()),
        "C02" => {
            v.push("Q (exact rational scalar) models the num::Float operations the crate uses: + - * / comparisons exactly, sqrt/log2 to 2^-192".into());
            v.push("f64 leg: dyadic inputs |x| <= 2^15, tolerance 1e-9 x largest magnitude seen (3.3e-5 x for a std, 1e-6 relative for std ratios on windows with var >= 1e-6 max|x|^2; flat or nearly flat windows are exempt there and belong to C16)".into());
        }
        "C03" => {
            v.push("K table as in the statement (N; N+1 for Rsi/MyRSI/Roc; 2N for Alma; N+M-1 for PFE over Sma(M), N+2M-1 over Alma(M))".into());
            v.push("f64 leg only for views whose floating-point residue is bounded by 1e-9 x magnitude (running sums of inputs or recomputation from the stored window); the ratio views (Welford std, Vst, Vsct, Rsi, MyRSI) are decided in Q and their rounding residue belongs to C16".into());
        }
        "C04" => {
            v.push("admissible parameters: Ema alpha in (0, N+1] (weight in (0,1]); Alma sigma in [0.5, 12], offset in [0, 1]".into());
            v.push("Alma's weights are evaluated with the exact scalar's exp (2^-192) on both sides; transcendental accuracy of f64::exp is inside the 1e-9 tolerance of the f64 leg".into());
        }
        "C05" => {
            v.push("MyRSI while the stream has been flat from its first value: no previous output exists and the statement fixes no value (exempt, counted)".into());
            v.push("f64 leg: flat windows and windows with G+L < max|x|/4096 are exempt (residue of running sums relative to G+L; decided by C16); tolerance scale*(1e-9 + 4.1e-9 (t+1))".into());
        }
        "C06" => {
            v.push("the statement's 'CTI is +1 on any strictly increasing window' is asserted only through Pearson's r (= +1 exactly on arithmetic progressions): the check never demands more than the definition in the same sentence".into());
            v.push("partial windows: values are checked when reported (NET, CoG) or left open (CTI); f64 leg exempts windows whose spread (CTI) or sum (CoG) is below 1e-3 of their magnitude".into());
        }
        "C07" => {
            v.push("'a few ulps of the bound' = 8 ulps, 8 + N ulps for quotients of N-term sums (Sma, Alma, CoG, Vsct: half an ulp of rounding per summand is unavoidable) (of the range width where the bound is 0); Min/Max bounds are taken over the values as the scalar sees them".into());
            v.push("PFE / EFT are exercised with averaging moving averages Sma, Ema, Alma (1..6)".into());
        }
        "C08" => {
            v.push("release profile, f64: a NaN must be seen, not turned into a debug-assert panic (that is C15)".into());
            v.push("in-domain = finite input of magnitude 0 or 1e-3..1e6, positive for Drawdown/LnReturn, non-zero divisor; windows from 1 (from 3 for CyberCycle, 2 for PFE, whose smaller windows panic: C15)".into());
            v.push("'for ever' is explored to 1e6 updates".into());
        }
        "C09" => {
            v.push("'for unbounded streams' cannot be shown: the check shows that the impulse response has decayed by 1e-6 within T and does not regrow by 2T (sum|h| constant to 4T) for every enumerated N - evidence about the pole radius, not a proof".into());
            v.push("fading memory is claimed on persistently exciting tails (noise >= 0.1 x scale); a constant tail makes the normalised indicators 0/0".into());
        }
        "C10" => v.push("DC clauses: 'once the start-up transient has decayed' = after T = 100 max(N, M, 25) steps, tolerance 1e-6 |c|".into()),
        "C11" => {
            v.push("conventions made explicit: zero initial filter state; previous input 0 for SuperSmoother/Roofing, first value for TrendFlex/ReFlex; first-value state for LaguerreFilter; zero state and gamma = 2/(N+1) for LaguerreRSI; window = N filter values incl. the current; Roofing feeds its smoother from the (N+2)-th value; EFT: flat window => 0 without touching the average, first transform output 0, clamp +-0.99".into());
            v.push("view minima for the definitional property: TrendFlex, ReFlex, PFE 3; RoofingFilter 2; CyberCycle 6 (the window must hold the six prices Smooth[2] reads)".into());
            v.push("`1.414*pi` and `4.4422` denote the same constant to 5 digits: the admissible band is the hull of both spellings".into());
            v.push("exact agreement on sampled rational inputs extends to all reals only branch by branch: the evidence lists the branches covered".into());
        }
        "C12" => {
            v.push("Vst on a flat window returns x_t itself (C02's convention), which scales with a: flat windows are exempt for Vst in the scale clause ('not degenerate' proviso); Rsi on a flat window is 100 on both sides: exempt in the negation clause".into());
            v.push("EFT is exercised with its default Ema(3) smoothing".into());
        }
        "C13" => v.push("long-stream leg: inputs k/64 with integer k <= 2^21, so sum k and sum k^2 are exact i128 accumulators; 'any length' is explored to 1e6 values".into()),
        "C14" => v.push("twins are legitimate stand-ins for the children by C17 (determinism); a case in which the divisor child outputs 0 or a NaN reaches Min/Max is outside the domain (discarded, counted)".into()),
        "C15" => v.push("'moderate magnitude' = 0 or 1e-3 <= |x| <= 1e6; f32 legs use |x| <= 32768; positive raw input wherever Drawdown/LnReturn/Divide's divisor need it".into()),
        _ => {}
    }
    v
}

/// Budget multiplier for the quick tier of generated clauses (the per-clause counts in the modules are the base budget).
/// Chosen so that every quick check is fixed work of roughly 20-60 s on 16 cores.
pub fn quick_scale(property: &str) -> u32 {
    match property {
        "C01" => 8,
        "C02" => 6,
        "C03" => 6,
        "C04" => 3,
        "C05" => 6,
        "C06" => 3,
        "C07" => 5,
        "C08" => 100,
        "C09" => 2,
        "C10" => 5,
        "C11" => 4,
        "C12" => 4,
        "C13" => 8,
        "C14" => 60,
        "C15" => 100,
        "C16" => 6,
        "C17" => 200,
        "C18" => 2,
        _ => 1,
    }
}

/// Divisor applied to the thorough-tier case counts of generated clauses, so that a thorough check is roughly half an hour of
/// fixed work on 16 cores (the exact-arithmetic legs at N up to 300 cost ~10 ms per case).
pub fn thorough_div(property: &str) -> u32 {
    match property {
        "C02" => 4,
        _ => 1,
    }
}
