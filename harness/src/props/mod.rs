//! Registry: property id -> clauses.
use crate::core::Clause;

pub mod c15;

pub const PROPERTIES: [&str; 18] = ["C01", "C02", "C03", "C04", "C05", "C06", "C07", "C08", "C09", "C10", "C11", "C12", "C13", "C14", "C15", "C16", "C17", "C18"];

pub fn clauses(property: &str) -> Vec<Clause> {
    match property {
        "C15" => c15::clauses(),
        _ => vec![],
    }
}

pub fn property_rule(property: &str) -> String {
    match property {
        "C15" => "no unwind out of update()/last() for any constructed view, both cargo profiles".into(),
        _ => String::new(),
    }
}

pub fn property_assumptions(property: &str) -> Vec<String> {
    let mut v = vec![
        "the harness' Spec catalogue builds the crate's real view types (Box<dyn DynView<T>> as the chained View)".to_string(),
        "proptest 1.11 generators and shrinking; a run is a pure function of (/repo tree, VERIF_SEED, tier)".to_string(),
    ];
    match property {
        "C15" => v.push("'moderate magnitude' = 0 or 1e-3 <= |x| <= 1e6; f32 legs use |x| <= 32768; positive raw input wherever Drawdown/LnReturn/Divide's divisor need it".into()),
        _ => {}
    }
    v
}
