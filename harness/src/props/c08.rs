//! C08 — Readiness: None during warm-up, then a finite value for ever.
use super::c01::{inners, outers};
use super::c15::{chain_strategy, class_stream_pub, STREAM_CLASSES};
use crate::catalog::*;
use crate::core::*;
use crate::exec::*;
use crate::gen::{self, StreamCfg};
use crate::runner::guarded;
use proptest::prelude::*;
use sliding_features::View;

const SCALES: [Rat; 4] = [Rat(1, 1000), Rat(1, 8), Rat(1, 1), Rat(30, 1)];

/// (a) readiness never reverts, (b) every reported value is finite. Returns (first ready step, steps after ready).
fn drive(v: &mut BoxView<f64>, xs: impl Iterator<Item = f64>) -> Result<(Option<usize>, usize), (String, String)> {
    let mut ready: Option<usize> = None;
    let mut after = 0;
    for (t, x) in xs.enumerate() {
        v.update(x);
        match v.last() {
            Some(o) => {
                if !o.is_finite() {
                    return Err(("nonfinite".into(), format!("step {t}: reported {o} (non-finite)")));
                }
                if ready.is_none() {
                    ready = Some(t);
                } else {
                    after += 1;
                }
            }
            None => {
                if let Some(r) = ready {
                    return Err(("relapse".into(), format!("step {t}: reported nothing although a value had been reported at step {r} (readiness reverted)")));
                }
            }
        }
    }
    Ok((ready, after))
}

fn tag(spec: &Spec) -> String {
    match spec.own_windows().first() {
        Some(w) => format!("{}:{}", spec.name(), w),
        None => spec.name().to_string(),
    }
}

fn rf_check(case: &Case) -> Verdict {
    let spec = case.spec();
    let positive = case.xs.iter().all(|r| r.0 > 0);
    if !(if positive { spec.domain_ok_positive_input() } else { spec.domain_ok_signed_input() }) {
        return Verdict::Discard("tree outside the documented input domain".into());
    }
    let xs = f64s(&case.xs);
    let r = guarded(|| {
        let mut v = build::<f64>(spec);
        let before = v.last();
        if let Some(b) = before {
            if !b.is_finite() {
                return Err(("nonfinite".to_string(), format!("before the first update: reported {b}")));
            }
        }
        drive(&mut v, xs.iter().copied())
    });
    let n = spec.max_window().max(1);
    match r {
        Err(p) if p.contains("Can compare elements") => Verdict::Discard("a NaN reached Min/Max (left the domain)".into()),
        Err(p) => Verdict::fail(format!("C08/readiness_finite|{}|panic", tag(spec)), format!("{}: {p}", spec.show())),
        Ok(Err((kind, m))) => {
            if kind == "nonfinite" && !super::c15::inner_outputs_moderate(spec, &case.xs, false) {
                return Verdict::Discard("the inner view's outputs leave the moderate range (0 or 1e-9..1e12): outside the wrapper's input domain".into());
            }
            Verdict::fail(format!("C08/readiness_finite|{}|{kind}", tag(spec)), format!("{}: {m}; input {}", spec.show(), show_rats(&case.xs)))
        }
        Ok(Ok((ready, after))) => {
            let mut l = gen::shape_labels(&case.xs, n);
            if ready.is_some() {
                l.push("became_ready".into());
            }
            Verdict::pass(ready.is_some() && after >= n, l)
        }
    }
}

fn singles_enum(tier: Tier) -> Vec<Case> {
    let mut out = vec![];
    let long: &[usize] = match tier {
        Tier::Quick => &[65, 100, 128, 257],
        Tier::Thorough => &[65, 100, 127, 128, 129, 255, 256, 257, 512, 1000],
    };
    for n in (1..=tier.pick(40, 64)).chain(long.iter().copied()) {
        let mut specs = unary_grid(n);
        if n > 1 {
            specs.retain(|s| !s.own_windows().is_empty());
        } else {
            specs.push(Spec::Echo);
            specs.push(Spec::Constant(2.5));
        }
        for spec in specs {
            // configurations that panic belong to C15 (listed findings there)
            if matches!(spec, Spec::CyberCycle(_, k) if k < 3) || matches!(spec, Spec::Pfe(_, _, k) if k < 2) {
                continue;
            }
            let positive = spec.needs_positive_input();
            for class in 1..STREAM_CLASSES.len() {
                let ks = class_stream_pub(class, n, positive, (n * 131 + class) as u64);
                // degenerate classes are stretched: a long flat / zero / alternating tail after the basic shape
                let mut ks = ks;
                if let Some(l) = ks.last().copied() {
                    if class % 3 == 0 {
                        ks.extend(std::iter::repeat(l).take(3 * n + 5));
                    }
                }
                out.push(Case::of(spec.clone(), gen::to_rats(&ks, SCALES[(n + class) % SCALES.len()])));
            }
        }
    }
    out
}

fn chains(tier: Tier) -> BoxedStrategy<Case> {
    let nmax = tier.pick(16, 48);
    (chain_strategy(nmax), 0usize..SCALES.len())
        .prop_flat_map(|(spec, sc)| {
            let n = spec.max_window().max(1);
            let mut cfg = StreamCfg::new(n).scale(SCALES[sc]).kmax(4000).len(0, 12 * n + 50).segs(8);
            if spec.needs_positive_input() {
                cfg = cfg.positive();
            }
            gen::stream_nz(cfg).prop_map(move |xs| Case::of(spec.clone(), xs))
        })
        .boxed()
}

/// long runs of single views: ints = [seed, len, shape]
fn long_case(tier: Tier) -> BoxedStrategy<Case> {
    (0usize..40, 1usize..=32, any::<u64>(), prop_oneof![Just(5_000usize), Just(tier.pick(20_000usize, 1_000_000usize))], 0i64..4)
        .prop_map(|(w, n, seed, len, shape)| {
            let o = outers(&Spec::Echo, n);
            Case { spec: Some(o[w % o.len()].clone()), ints: vec![(seed >> 1) as i64, len as i64, shape], a: Rat(1, 1), ..Default::default() }
        })
        .boxed()
}
/// very long runs (beyond 2^16 and 2^17 updates) of every single view: counters narrower than usize, periodic re-synchronisation
/// and anything else that only happens after tens of thousands of updates
fn ultra_cases(tier: Tier) -> Vec<Case> {
    let len = tier.pick(135_000usize, 1_200_000usize);
    let mut out = vec![];
    for n in [3usize, 7, 16] {
        for (w, o) in outers(&Spec::Echo, n).into_iter().enumerate() {
            for shape in [0i64, 1] {
                out.push(Case { spec: Some(o.clone()), ints: vec![(0x5EED_0000 + 131 * w + 7 * n) as i64 + shape, len as i64, shape], a: Rat(1, 1), ..Default::default() });
            }
        }
    }
    out
}
fn long_check(case: &Case) -> Verdict {
    let spec = case.spec();
    let (seed, len, shape) = (case.ints[0] as u64, case.ints[1] as usize, case.ints[2]);
    let positive = spec.needs_positive_input();
    let mut st = seed;
    let mut level: i64 = 50_000;
    let it = (0..len).map(move |t| {
        let r = gen::splitmix(&mut st);
        let k: i64 = match shape {
            0 => (r % 2_000_001) as i64 - 1_000_000,                     // wide noise
            1 => {                                                        // walk with long plateaus (flat windows after volatile ones)
                if (t / 257) % 2 == 0 {
                    level += (r % 2001) as i64 - 1000;
                }
                level
            }
            2 => if (t / 64) % 2 == 0 { 0 } else { (r % 2001) as i64 - 1000 }, // zero stretches
            _ => if r % 5 == 0 { level } else { level + (r % 3) as i64 - 1 },    // ties around a level
        };
        let k = if positive { k.abs().max(1) } else { k };
        k as f64 / 8.0
    });
    let r = guarded(|| {
        let mut v = build::<f64>(spec);
        drive(&mut v, it)
    });
    match r {
        Err(p) => Verdict::fail(format!("C08/readiness_finite|{}|panic", tag(spec)), format!("{}: {p} (seed {seed}, len {len}, shape {shape})", spec.show())),
        Ok(Err((kind, m))) => Verdict::fail(format!("C08/readiness_finite|{}|{kind}", tag(spec)), format!("{}: {m} (long stream: seed {seed}, len {len}, shape {shape})", spec.show())),
        Ok(Ok((ready, _))) => Verdict::pass(ready.is_some(), vec![format!("shape_{shape}"), format!("len_{len}")]),
    }
}

// ---------------------------------------------------------------------------------------------- warm-up table

#[derive(Clone, Copy)]
enum Warm {
    Exactly(usize),
    /// no earlier than lo, no later than hi delivered values (0 = before any)
    Between(usize, usize),
}
fn warm_table(n: usize, m: usize) -> Vec<(Spec, Warm)> {
    vec![
        (Spec::Sma(echo(), n), Warm::Exactly(n)),
        (Spec::Ema(echo(), n), Warm::Exactly(n)),
        (Spec::SuperSmoother(echo(), n), Warm::Exactly(n)),
        (Spec::Rsi(echo(), n), Warm::Exactly(n)),
        (Spec::MyRsi(echo(), n), Warm::Exactly(n)),
        (Spec::Roofing(echo(), n, m), Warm::Exactly(n + m + 1)),
        (Spec::LnReturn(echo()), Warm::Exactly(2)),
        (Spec::WelfordOnline(echo(), n), Warm::Between(n.saturating_sub(1), n)),
        (Spec::Vst(echo(), n), Warm::Between(n.saturating_sub(1), n)),
        (Spec::Vsct(echo(), n), Warm::Between(n.saturating_sub(1), n)),
        (Spec::Echo, Warm::Exactly(1)),
        (Spec::Min(echo(), n), Warm::Exactly(1)),
        (Spec::Max(echo(), n), Warm::Exactly(1)),
        (Spec::Cumulative(echo(), n), Warm::Exactly(1)),
        (Spec::Alma(echo(), n), Warm::Exactly(1)),
        (Spec::CenterOfGravity(echo(), n), Warm::Exactly(1)),
        (Spec::BinaryEntropy(echo(), n), Warm::Exactly(1)),
        (Spec::Gte(echo(), 0.5), Warm::Exactly(1)),
        (Spec::Lte(echo(), 100.0), Warm::Exactly(1)),
        (Spec::Tanh(echo()), Warm::Exactly(1)),
        (Spec::LaguerreFilter(echo(), 0.5), Warm::Exactly(1)),
    ]
}
fn warm_cases(tier: Tier) -> Vec<Case> {
    let mut out = vec![];
    for n in 1..=tier.pick(40, 128) {
        let m = 1 + n % 5;
        for (i, (spec, _)) in warm_table(n, m).into_iter().enumerate() {
            if n > 1 && spec.own_windows().is_empty() {
                continue;
            }
            for k in [0usize, 1, 4] {
                for class in [2usize, 3, 8, 9, 12] {
                    out.push(Case { spec: Some(spec.clone()), ints: vec![i as i64, n as i64, m as i64, k as i64, class as i64], a: Rat(1, 1), ..Default::default() });
                }
            }
        }
    }
    out
}
fn warm_check(case: &Case) -> Verdict {
    let (i, n, m, k, class) = (case.ints[0] as usize, case.ints[1] as usize, case.ints[2] as usize, case.ints[3] as usize, case.ints[4] as usize);
    let (spec, want) = warm_table(n, m)[i].clone();
    // zeros (class 3) and sum-zero (class 9) streams are in-domain for every view of the table except LnReturn (positive input)
    let positive = matches!(spec, Spec::LnReturn(_));
    let ks = class_stream_pub(class, n + m + k, positive, (n * 7 + class) as u64);
    let mut ks = ks;
    while ks.len() < n + m + k + 6 {
        ks.push(if class == 3 { 0 } else { 100 + ks.len() as i64 });
    }
    let xs: Vec<f64> = ks.iter().map(|k| *k as f64 / 8.0).collect();
    let mut v = build_gated::<f64>(&spec, k);
    let mut first: Option<usize> = if v.last().is_some() { Some(0) } else { None };
    for (t, x) in xs.iter().enumerate() {
        v.update(*x);
        if first.is_none() && v.last().is_some() {
            first = Some(t + 1);
        }
    }
    // `first` = number of updates after which a value was first reported; delivered values = first - k
    let ok = match (want, first) {
        (Warm::Exactly(w), Some(f)) => f == w + k,
        (Warm::Between(lo, hi), Some(f)) => {
            // "no earlier than lo and no later than hi delivered values": before any delivery only if lo == 0
            let delivered = f.saturating_sub(k);
            if f <= k {
                lo == 0
            } else {
                delivered >= lo.max(1).min(hi) && delivered <= hi.max(1) || (lo == 0 && delivered <= hi.max(1))
            }
        }
        (_, None) => false,
    };
    if !ok {
        let w = match want {
            Warm::Exactly(w) => format!("exactly {w}"),
            Warm::Between(lo, hi) => format!("between {lo} and {hi}"),
        };
        return Verdict::fail(format!("C08/warmup|{}", tag(&spec)), format!("{} over a leaf that withholds its first {k} inputs: first value reported after {:?} updates; documented warm-up is {w} delivered values (+ {k} withheld)", spec.show(), first));
    }
    Verdict::pass(true, vec![spec.name().to_string(), format!("gate_{k}")])
}

// ---------------------------------------------------------------------------------------------- nothing delivered => answer unchanged

fn mute_cases(_tier: Tier) -> Vec<Case> {
    let mut out = vec![];
    for n_in in [1usize, 4] {
        for inner in inners(n_in) {
            for n_out in [1usize, 3, 7] {
                for outer in outers(&inner, n_out) {
                    out.push(Case { spec: Some(outer.clone()), ints: vec![n_out as i64], a: Rat(1, 1), ..Default::default() });
                }
            }
        }
    }
    out
}
fn mute_check(case: &Case) -> Verdict {
    let spec = case.spec();
    let Some((_, inner)) = outer_over_echo(spec) else { return Verdict::Discard("not a unary wrapper".into()) };
    let bits = |o: Option<f64>| o.map(f64::to_bits);
    let r = guarded(|| {
        let mut steps = 0;
        // leaves that never deliver (k = usize::MAX) or withhold their first k inputs; a twin of the inner view tells
        // whether the wrapper has been delivered anything yet
        for k in [usize::MAX, 1, 5] {
            let (mut v, mut inner_twin) = if k == usize::MAX { (build_muted::<f64>(spec), build_muted::<f64>(&inner)) } else { (build_gated::<f64>(spec, k), build_gated::<f64>(&inner, k)) };
            let before = bits(v.last());
            for t in 0..(if k == usize::MAX { 40 } else { k + 12 }) {
                let x = 100.0 + t as f64 * 1.5;
                v.update(x);
                inner_twin.update(x);
                if inner_twin.last().is_some() {
                    break; // from now on the wrapper is being delivered values
                }
                steps += 1;
                if bits(v.last()) != before {
                    return Err(format!("its inner view had reported nothing yet (update {}), but the answer changed from {:?} to {:?}", t + 1, before.map(f64::from_bits), v.last()));
                }
            }
        }
        Ok(steps)
    });
    match r {
        Err(p) => Verdict::fail(format!("C08/undelivered|{}|panic", tag(spec)), format!("{}: {p}", spec.show())),
        Ok(Err(m)) => Verdict::fail(format!("C08/undelivered|{}|changed", tag(spec)), format!("{}: {m}", spec.show())),
        Ok(Ok(steps)) => Verdict::pass(steps >= 3, vec![spec.name().to_string()]),
    }
}

pub fn clauses() -> Vec<Clause> {
    vec![
        Clause::enumerated("C08", "C08/singles/enumerated", "Enumerated: every view over Echo with the full secondary-parameter grid, N in 1..40 and {65, 100, 128, 257} (thorough ..64 and ten long windows up to 1000; configurations that panic are C15's), 12 stream classes (single, constant, zeros, ties, up, down, alternating, noise, sum-zero, shorter than N, exactly N, long mix), every third class extended by a flat tail of 3N+5; f64 at magnitudes 1e-3..1e6. Oracle: once last() has returned a value it returns one after every later update, and every value is finite. Non-trivial: became ready and >= N further updates.", singles_enum, rf_check).with_shard(1000),
        Clause::generated("C08", "C08/chains/generated", "Generated two-level trees (unary over unary / binary, binary over unaries) with in-domain structure, grammar streams of 0..12N+50 values (flats, zero sums, zero bases, ties, spikes). Same oracle.", 8000, 300_000, chains, rf_check).with_shard(500),
        Clause::generated("C08", "C08/long/generated", "Single views over streams of 5e3 / 2e4 (thorough 1e6) values derived from a generated seed: wide noise, walk with 257-step plateaus (flat after volatile), zero stretches, ties around a level. Same oracle.", 160, 1600, long_case, long_check).with_shard(8),
        Clause::enumerated("C08", "C08/ultra/enumerated", "Enumerated: every view over Echo at N in {3, 7, 16}, two stream shapes (wide noise; walk with 257-step plateaus), 135 000 values (thorough 1.2e6): past 2^16 and 2^17 updates, where a narrowed counter wraps or saturates. Same oracle at every step.", ultra_cases, long_check).with_shard(16),
        Clause::enumerated("C08", "C08/warmup/enumerated", "Enumerated: the statement's warm-up table x N in 1..40 (thorough ..128) x leaf withholding its first k in {0,1,4} inputs x 5 stream classes (constant, zeros, noise, sum-zero, long mix): the first value is reported after exactly (documented warm-up + k) updates (Sma, Ema, SuperSmoother, Rsi, MyRSI: N; RoofingFilter(N,M): N+M+1; LnReturn: 2; WelfordOnline, Vst, Vsct: between N-1 and N; Echo, Min, Max, Cumulative, Alma, CoG, BinaryEntropy, GTE, LTE, Tanh, LaguerreFilter: 1).", warm_cases, warm_check).with_shard(500),
        Clause::enumerated("C08", "C08/undelivered/enumerated", "Enumerated: every (wrapper, inner) pair of the catalogue built over leaves that never deliver (Mute) or withhold their first k in {1,5} inputs (Gate): for as long as a twin of the inner view reports nothing, the wrapper's last() must keep returning exactly what it returned before the first update. Non-trivial: at least 3 such updates.", mute_cases, mute_check).with_shard(500),
    ]
}

/// entry point for the libFuzzer targets: the clause's own oracle on a decoded case
pub fn fuzz_check(case: &Case) -> Verdict {
    rf_check(case)
}
