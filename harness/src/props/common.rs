//! Shared oracle plumbing: comparing a view's output sequence with a reference sequence.
use crate::catalog::Spec;
use crate::core::*;
use crate::exec::*;
use crate::q::XV;
use crate::refs::{Want, R};
use num::traits::{Signed, Zero};

pub struct Mismatch {
    pub step: usize,
    pub aspect: &'static str,
    pub detail: String,
}

/// Compare exact outputs with the reference. `tol(step)` is the admissible absolute deviation.
pub fn compare_q(outs: &[Option<XV>], wants: &[Want], tol: &dyn Fn(usize) -> R) -> Result<usize, Mismatch> {
    // Ok(number of exempt steps)
    let mut open = 0;
    for (t, (o, w)) in outs.iter().zip(wants.iter()).enumerate() {
        match (o, w) {
            (_, Want::Open) => open += 1,
            (None, Want::None) => {}
            (Some(v), Want::None) => return Err(Mismatch { step: t, aspect: "readiness", detail: format!("reported {} where nothing may be reported yet", v.show()) }),
            (None, Want::Val(r)) => return Err(Mismatch { step: t, aspect: "readiness", detail: format!("reported nothing, expected {}", show(r)) }),
            (None, Want::Something) => return Err(Mismatch { step: t, aspect: "readiness", detail: "reported nothing, expected a value".into() }),
            (None, Want::IfSome(_)) => {}
            (Some(v), Want::Something) => {
                if !v.is_finite() {
                    return Err(Mismatch { step: t, aspect: "value", detail: format!("reported non-finite {}", v.show()) });
                }
            }
            (Some(v), Want::Val(r)) | (Some(v), Want::IfSome(r)) => match v.fin() {
                None => return Err(Mismatch { step: t, aspect: "value", detail: format!("reported non-finite {}, expected {}", v.show(), show(r)) }),
                Some(f) => {
                    let d = abs_diff(f, r);
                    if d > tol(t) {
                        return Err(Mismatch { step: t, aspect: "value", detail: format!("reported {} expected {} (|diff| = {})", show(f), show(r), show(&d)) });
                    }
                }
            },
        }
    }
    Ok(open)
}

pub fn compare_f64(outs: &[Option<f64>], wants: &[Want], tol: &dyn Fn(usize, &R) -> R) -> Result<usize, Mismatch> {
    let mut open = 0;
    for (t, (o, w)) in outs.iter().zip(wants.iter()).enumerate() {
        match (o, w) {
            (_, Want::Open) => open += 1,
            (None, Want::None) => {}
            (Some(v), Want::None) => return Err(Mismatch { step: t, aspect: "readiness", detail: format!("reported {v:e} where nothing may be reported yet") }),
            (None, Want::Val(r)) => return Err(Mismatch { step: t, aspect: "readiness", detail: format!("reported nothing, expected {}", show(r)) }),
            (None, Want::Something) => return Err(Mismatch { step: t, aspect: "readiness", detail: "reported nothing, expected a value".into() }),
            (None, Want::IfSome(_)) => {}
            (Some(v), Want::Something) => {
                if !v.is_finite() {
                    return Err(Mismatch { step: t, aspect: "value", detail: format!("reported non-finite {v}") });
                }
            }
            (Some(v), Want::Val(r)) | (Some(v), Want::IfSome(r)) => {
                if !v.is_finite() {
                    return Err(Mismatch { step: t, aspect: "value", detail: format!("reported non-finite {v}, expected {}", show(r)) });
                }
                let d = abs_diff(&rat_of_f64(*v), r);
                if d > tol(t, r) {
                    return Err(Mismatch { step: t, aspect: "value", detail: format!("reported {v:e} expected {} (|diff| = {})", show(r), show(&d)) });
                }
            }
        }
    }
    Ok(open)
}

/// running maximum of |x| up to each step (>= 1 grid-independent floor is added by callers if wanted)
pub fn running_max_abs(h: &[R]) -> Vec<R> {
    let mut m = R::zero();
    h.iter()
        .map(|x| {
            if x.abs() > m {
                m = x.abs();
            }
            m.clone()
        })
        .collect()
}

pub fn fail_msg(spec: &Spec, scalar: &str, xs: &[Rat], m: &Mismatch) -> String {
    format!("{} [{}] step {} ({}): {}; input {}", spec.show(), scalar, m.step, m.aspect, m.detail, show_rats(xs))
}

pub fn f(x: f64) -> R {
    rat_of_f64(x)
}
