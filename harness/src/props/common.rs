//! Shared oracle plumbing: comparing a view's output sequence with a reference sequence.
use crate::catalog::{echo, rebase, Spec};
use crate::core::*;
use crate::exec::*;
use crate::q::XV;
use crate::refs::{Want, R};
use num::traits::{Signed, Zero};

pub struct Mismatch {
    pub step: usize,
    pub aspect: &'static str,
    pub detail: String,
}

/// Compare exact outputs with the reference. `tol(step)` is the admissible absolute deviation.
pub fn compare_q(outs: &[Option<XV>], wants: &[Want], tol: &dyn Fn(usize) -> R) -> Result<usize, Mismatch> {
    // Ok(number of exempt steps)
    let mut open = 0;
    for (t, (o, w)) in outs.iter().zip(wants.iter()).enumerate() {
        match (o, w) {
            (_, Want::Open) => open += 1,
            (None, Want::None) => {}
            (Some(v), Want::None) => return Err(Mismatch { step: t, aspect: "readiness", detail: format!("reported {} where nothing may be reported yet", v.show()) }),
            (None, Want::Val(r)) => return Err(Mismatch { step: t, aspect: "readiness", detail: format!("reported nothing, expected {}", show(r)) }),
            (None, Want::Something) => return Err(Mismatch { step: t, aspect: "readiness", detail: "reported nothing, expected a value".into() }),
            (None, Want::IfSome(_)) => {}
            (Some(v), Want::Something) => {
                if !v.is_finite() {
                    return Err(Mismatch { step: t, aspect: "value", detail: format!("reported non-finite {}", v.show()) });
                }
            }
            (Some(v), Want::Val(r)) | (Some(v), Want::IfSome(r)) => match v.fin() {
                None => return Err(Mismatch { step: t, aspect: "value", detail: format!("reported non-finite {}, expected {}", v.show(), show(r)) }),
                Some(f) => {
                    let d = abs_diff(f, r);
                    if d > tol(t) {
                        return Err(Mismatch { step: t, aspect: "value", detail: format!("reported {} expected {} (|diff| = {})", show(f), show(r), show(&d)) });
                    }
                }
            },
        }
    }
    Ok(open)
}

pub fn compare_f64(outs: &[Option<f64>], wants: &[Want], tol: &dyn Fn(usize, &R) -> R) -> Result<usize, Mismatch> {
    let mut open = 0;
    for (t, (o, w)) in outs.iter().zip(wants.iter()).enumerate() {
        match (o, w) {
            (_, Want::Open) => open += 1,
            (None, Want::None) => {}
            (Some(v), Want::None) => return Err(Mismatch { step: t, aspect: "readiness", detail: format!("reported {v:e} where nothing may be reported yet") }),
            (None, Want::Val(r)) => return Err(Mismatch { step: t, aspect: "readiness", detail: format!("reported nothing, expected {}", show(r)) }),
            (None, Want::Something) => return Err(Mismatch { step: t, aspect: "readiness", detail: "reported nothing, expected a value".into() }),
            (None, Want::IfSome(_)) => {}
            (Some(v), Want::Something) => {
                if !v.is_finite() {
                    return Err(Mismatch { step: t, aspect: "value", detail: format!("reported non-finite {v}") });
                }
            }
            (Some(v), Want::Val(r)) | (Some(v), Want::IfSome(r)) => {
                if !v.is_finite() {
                    return Err(Mismatch { step: t, aspect: "value", detail: format!("reported non-finite {v}, expected {}", show(r)) });
                }
                let d = abs_diff(&rat_of_f64(*v), r);
                if d > tol(t, r) {
                    return Err(Mismatch { step: t, aspect: "value", detail: format!("reported {v:e} expected {} (|diff| = {})", show(r), show(&d)) });
                }
            }
        }
    }
    Ok(open)
}

/// running maximum of |x| up to each step (>= 1 grid-independent floor is added by callers if wanted)
pub fn running_max_abs(h: &[R]) -> Vec<R> {
    let mut m = R::zero();
    h.iter()
        .map(|x| {
            if x.abs() > m {
                m = x.abs();
            }
            m.clone()
        })
        .collect()
}

pub fn fail_msg(spec: &Spec, scalar: &str, xs: &[Rat], m: &Mismatch) -> String {
    format!("{} [{}] step {} ({}): {}; input {}", spec.show(), scalar, m.step, m.aspect, m.detail, show_rats(xs))
}

pub fn f(x: f64) -> R {
    rat_of_f64(x)
}

// ------------------------------------------------------------------------------------------------
// generic "view equals its batch definition at every step" clause (used by C05, C06, C11, C13 ...)

use crate::gen::{self, StreamCfg};
use proptest::prelude::*;

#[derive(Clone)]
pub struct DefView {
    pub name: &'static str,
    pub mk: fn(usize) -> Spec,
    pub reference: fn(&[R], usize) -> Vec<Want>,
    pub min_n: usize,
    /// the definition involves an irrational function (sqrt / exp / ln): 2^-150 relative tolerance instead of equality
    pub irr: bool,
    pub positive: bool,
}

pub fn def_strategy(vd: DefView, hi_q: usize, hi_t: usize, len_mult: usize) -> impl Fn(Tier) -> BoxedStrategy<Case> + Send + Sync {
    move |tier: Tier| {
        let vd = vd.clone();
        (gen::window(tier, vd.min_n, hi_q, hi_t), gen::dyadic_scale_wide())
            .prop_flat_map(move |(n, sc)| {
                let mut cfg = StreamCfg::new(n).scale(sc).len(0, len_mult * n + 8);
                if vd.positive {
                    cfg = cfg.positive();
                }
                let mk = vd.mk;
                gen::stream(cfg).prop_map(move |xs| Case::of(mk(n), xs))
            })
            .boxed()
    }
}

/// long-history variant of `def_strategy`: N in min..min+7, 300..1200 values
pub fn def_strategy_long(vd: DefView) -> impl Fn(Tier) -> BoxedStrategy<Case> + Send + Sync {
    move |tier: Tier| {
        let vd = vd.clone();
        (vd.min_n..=vd.min_n + 7, gen::dyadic_scale_wide())
            .prop_flat_map(move |(n, sc)| {
                let mut cfg = StreamCfg::new(n).scale(sc).kmax(512);
                if vd.positive {
                    cfg = cfg.positive();
                }
                let mk = vd.mk;
                gen::long_stream(cfg, 300, tier.pick(1200, 5000)).prop_map(move |xs| Case::of(mk(n), xs))
            })
            .boxed()
    }
}

pub fn nontrivial_default(case: &Case, n: usize) -> (bool, Vec<String>) {
    let l = gen::shape_labels(&case.xs, n);
    let mut v: Vec<_> = case.xs.iter().map(|r| r.big()).collect();
    v.sort();
    v.dedup();
    (case.xs.len() >= 2 * n + 2 && v.len() >= 2, l)
}

/// exact leg: crate code at Q vs reference, every step
pub fn def_check_q(id: String, vd: DefView) -> impl Fn(&Case) -> Verdict + Send + Sync {
    move |case: &Case| {
        let spec = case.spec();
        let n = spec.own_windows().first().copied().unwrap_or(1);
        let h = bigs(&case.xs);
        let maxabs = running_max_abs(&h);
        let wants = (vd.reference)(&h, n);
        let outs = run_q(spec, &h);
        let irr = vd.irr;
        let tol = |t: usize| -> R {
            let scale = &maxabs[t] + R::from_integer(1.into());
            if irr {
                tol_q_irr(&(&scale * &scale))
            } else {
                tol_q(&scale)
            }
        };
        match compare_q(&outs, &wants, &tol) {
            Ok(open) => {
                let (nt, mut l) = nontrivial_default(case, n);
                if open > 0 {
                    l.push("open_steps".into());
                }
                Verdict::pass(nt, l)
            }
            Err(m) => Verdict::fail(format!("{id}|{}", m.aspect), fail_msg(spec, "Q", &case.xs, &m)),
        }
    }
}

/// f64 leg with a caller-supplied tolerance (step, reference value, history, running max|x|) -> admissible |diff|;
/// `open(step, history)` may exempt ill-conditioned steps (counted).
pub fn def_check_f64(
    id: String,
    vd: DefView,
    tol: impl Fn(usize, &R, &[R], &R) -> R + Send + Sync + 'static,
    open: impl Fn(usize, &[R], usize) -> bool + Send + Sync + 'static,
) -> impl Fn(&Case) -> Verdict + Send + Sync {
    let qid = id.replace("/f64", "/Q");
    let qcheck = def_check_q(qid, vd.clone());
    move |case: &Case| {
        let spec = case.spec();
        let n = spec.own_windows().first().copied().unwrap_or(1);
        let h = bigs(&case.xs);
        let xs = f64s(&case.xs);
        let maxabs = running_max_abs(&h);
        let mut wants = (vd.reference)(&h, n);
        for t in 0..wants.len() {
            if open(t, &h, n) {
                wants[t] = Want::Open;
            }
        }
        let outs = run_f64(spec, &xs);
        let tolf = |t: usize, r: &R| -> R { tol(t, r, &h, &maxabs[t]) };
        match compare_f64(&outs, &wants, &tolf) {
            Ok(openn) => {
                let (nt, mut l) = nontrivial_default(case, n);
                if openn > 0 {
                    l.push("open_or_ill_conditioned_steps".into());
                }
                Verdict::pass(nt, l)
            }
            Err(m) => {
                crate::q::arena_reset();
                let exact_ok = matches!(qcheck(case), Verdict::Pass { .. });
                Verdict::fail(format!("{id}|{}{}", m.aspect, if exact_ok { "|exact_ok" } else { "" }), fail_msg(spec, "f64", &case.xs, &m))
            }
        }
    }
}

/// ultra-long variant (past 2^16 and 2^17 updates): N in min..min+7 (1 in 4: up to 32), ints = [seed, len, shape]
pub fn def_strategy_ultra(vd: DefView) -> impl Fn(Tier) -> BoxedStrategy<Case> + Send + Sync {
    move |tier: Tier| {
        let mk = vd.mk;
        (prop_oneof![3 => vd.min_n..=vd.min_n + 7, 1 => vd.min_n + 8..=32usize], any::<u64>(), 0i64..4)
            .prop_map(move |(n, seed, shape)| Case { spec: Some(mk(n)), ints: vec![(seed >> 1) as i64, { let _ = tier; 135_000i64 }, shape], a: Rat(1, 1), ..Default::default() })
            .boxed()
    }
}
pub const ULTRA_RULE: &str = "ultra-long histories: 135 000 values (both tiers: the exact scalar's arena of big values is bounded; past 2^16 and 2^17 updates, where a narrowed counter wraps or saturates) on the 1/8 grid derived from a generated seed (wide noise; walk with 257-step plateaus; zero stretches; ties around a level), N from the view's minimum to +7 (1 in 4: up to 32); the crate's code runs at the exact scalar and the batch definition is evaluated from the last N+3 values at 12..120 checkpoints (every power of two from 2^16 on, N+1 steps after it, the last steps, seeded steps; steps whose last N+1 values are all equal are skipped where the view holds its previous output). Non-trivial: >= 8 checkpoints compared.";
/// exact leg over an ultra stream: the definition is evaluated from the last N+3 values at the checkpoints only (every view
/// using this is a function of the last N+1 values, or holds its previous output on a flat window: those checkpoints are skipped)
pub fn def_check_ultra_q(id: String, vd: DefView) -> impl Fn(&Case) -> Verdict + Send + Sync {
    use sliding_features::View;
    move |case: &Case| {
        let spec = case.spec();
        let n = spec.own_windows().first().copied().unwrap_or(1);
        let (seed, len, shape) = (case.ints[0] as u64, case.ints[1] as usize, case.ints[2]);
        let ks: Vec<i64> = gen::ultra_stream(seed, len, shape).into_iter().map(|k| if vd.positive { k.abs().max(1) } else { k }).collect();
        let cps = gen::ultra_checkpoints(seed, len, n, (400_000 / (n * n * n / 4 + 16 * n)).clamp(12, 120));
        let mut v = crate::catalog::build::<crate::q::Q>(spec);
        let mut at = Vec::with_capacity(cps.len());
        let mut ci = 0;
        for (t, k) in ks.iter().enumerate() {
            v.update(crate::q::Q::from_ratio(R::new((*k).into(), 8.into())));
            if ci < cps.len() && cps[ci] == t {
                at.push((t, v.last().map(|o| o.extract())));
                ci += 1;
            }
        }
        let mag = R::from_integer((ks.iter().map(|k| k.abs()).max().unwrap_or(0)).into()) / R::from_integer(8.into()) + R::from_integer(1.into());
        let mut compared = 0;
        let mut skipped = 0;
        for (t, out) in at {
            if t < n + 2 {
                continue;
            }
            let h: Vec<R> = ks[t - n - 2..=t].iter().map(|k| R::new((*k).into(), 8.into())).collect();
            if h[1..].windows(2).all(|p| p[0] == p[1]) {
                skipped += 1;
                continue;
            }
            let want = (vd.reference)(&h, n).pop().unwrap();
            let tol = |_: usize| if vd.irr { tol_q_irr(&(&mag * &mag)) } else { tol_q(&mag) };
            if let Err(m) = compare_q(&[out], &[want], &tol) {
                return Verdict::fail(format!("{id}|{}", m.aspect), format!("{} [Q] after {} updates ({}): {}; the last {} inputs were {} (stream: seed {seed}, len {len}, shape {shape}, grid 1/8)", spec.show(), t + 1, m.aspect, m.detail, h.len(), show_bigs(&h)));
            }
            compared += 1;
        }
        let mut l = vec![format!("shape_{shape}")];
        if skipped > 0 {
            l.push("flat_checkpoints_skipped".into());
        }
        Verdict::pass(compared >= 8 && len > 70_000, l)
    }
}

/// chained variant: the view over another view (Sma, Max, Min of window M, or GTE / LTE at a clip on the value grid) instead of over
/// Echo. The definition is applied to what that inner view delivers (an exact stand-alone run of it); before the first delivery
/// the outer view must report nothing. A view that looks at the raw input anywhere, or seeds state before its inner view has
/// answered, is bit-identical over Echo and fails here.
pub fn def_strategy_chained(vd: DefView) -> impl Fn(Tier) -> BoxedStrategy<Case> + Send + Sync {
    move |tier: Tier| {
        let vd = vd.clone();
        (gen::window(tier, vd.min_n, 12, 40), 2usize..=5, 0usize..5, gen::dyadic_scale(), -40i64..=40)
            .prop_flat_map(move |(n, m, which, sc, c)| {
                let clip = (c * sc.0) as f64 / sc.1 as f64 * 16.0;
                let inner = [Spec::Sma(echo(), m), Spec::Max(echo(), m), Spec::Min(echo(), m), Spec::Gte(echo(), clip), Spec::Lte(echo(), clip)][which].clone();
                let spec = rebase(&(vd.mk)(n), &inner);
                let mut cfg = StreamCfg::new(n).scale(sc).len(0, 4 * n + 3 * m + 8);
                if vd.positive {
                    cfg = cfg.positive();
                }
                gen::stream(cfg).prop_map(move |xs| Case { spec: Some(spec.clone()), spec2: Some(inner.clone()), xs, a: Rat(1, 1), b: Rat(0, 1), ..Default::default() })
            })
            .boxed()
    }
}
pub const CHAINED_RULE: &str = "the view (N from its minimum to 12, thorough ..40) over Sma, Max or Min of window M in 2..5, or over GTE / LTE with a clip on the value grid, instead of over Echo; grammar stream of 0..4N+3M+8 values. Oracle: the batch definition applied to the values a stand-alone exact run of the inner view delivers, at every step; before the first delivery the view must keep answering what it answered before any update. Non-trivial: at least 2N+2 delivered values, not all equal.";
pub fn def_check_chained_q(id: String, vd: DefView) -> impl Fn(&Case) -> Verdict + Send + Sync {
    move |case: &Case| {
        let spec = case.spec();
        let inner = case.spec2.as_ref().expect("inner view");
        let n = spec.own_windows().first().copied().unwrap_or(1);
        let h = bigs(&case.xs);
        let inner_out = run_q(inner, &h);
        let mut delivered: Vec<R> = vec![];
        let mut upto: Vec<usize> = Vec::with_capacity(h.len());
        for o in &inner_out {
            if let Some(v) = o {
                match v.fin() {
                    Some(r) => delivered.push(r.clone()),
                    None => return Verdict::Discard("inner view left the finite domain".into()),
                }
            }
            upto.push(delivered.len());
        }
        if vd.positive && delivered.iter().any(|r| r <= &R::from_integer(0.into())) {
            return Verdict::Discard("inner output not positive".into());
        }
        let wants_d = (vd.reference)(&delivered, n);
        let outs = run_q(spec, &h);
        let maxabs = max_abs(delivered.iter()) + R::from_integer(1.into());
        let irr = vd.irr;
        // before the first delivery the view keeps answering what it answered before any update (nothing, for most views; CTI,
        // for one, answers 0 from the start)
        let initial = {
            use sliding_features::View;
            crate::catalog::build::<crate::q::Q>(spec).last().map(|o| o.extract())
        };
        for t in 0..h.len() {
            if upto[t] == 0 {
                if outs[t] != initial {
                    return Verdict::fail(format!("{id}|readiness"), format!("{} [Q] step {t}: reports {} although its inner view has delivered nothing yet (before any update it reported {}); input {}", spec.show(), show_opt(&outs[t]), show_opt(&initial), show_rats(&case.xs)));
                }
                continue;
            }
            let want = wants_d[upto[t] - 1].clone();
            let tol = |_: usize| if irr { tol_q_irr(&(&maxabs * &maxabs)) } else { tol_q(&maxabs) };
            if let Err(m) = compare_q(&outs[t..=t], &[want], &tol) {
                return Verdict::fail(format!("{id}|{}", m.aspect), format!("{} [Q] step {t} ({}): {}; the inner view had delivered {} values by then: {}; input {}", spec.show(), m.aspect, m.detail, upto[t], show_bigs(&delivered[..upto[t]]), show_rats(&case.xs)));
            }
        }
        let mut d = delivered.clone();
        d.sort();
        d.dedup();
        Verdict::pass(delivered.len() >= 2 * n + 2 && d.len() >= 2, vec![inner.name().to_string()])
    }
}
