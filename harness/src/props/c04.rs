//! C04 — Moving averages are genuine averages of their window (Sma, Ema, Alma).
use super::common::*;
use crate::catalog::*;
use crate::core::*;
use crate::exec::*;
use crate::gen::{self, StreamCfg};
use crate::q::{self, XV};
use crate::refs::{self, Want, R};
use num::traits::{One, Signed, Zero};
use proptest::prelude::*;

fn ma_spec_of(kind: usize, j: usize, si: usize, oi: usize, n: usize) -> Spec {
    // the seven / five classic values, then a finer grid: sigma 0.5..12 in steps of 0.25, offset 0..1 in steps of 0.05
    let sig = if si < 7 { [0.5, 1.0, 2.0, 4.0, 6.0, 8.0, 12.0][si] } else { 0.5 + 0.25 * (si - 7) as f64 };
    let off = if oi < 5 { [0.0, 0.25, 0.5, 0.85, 1.0][oi] } else { 0.05 * (oi - 5) as f64 };
    match kind {
        0 => Spec::Sma(echo(), n),
        1 => Spec::Ema(echo(), n),
        2 => Spec::EmaAlpha(echo(), n, (n as f64 + 1.0) * (j as f64 + 1.0) / 8.0),
        3 => Spec::Alma(echo(), n),
        _ => Spec::AlmaCustom(echo(), n, sig, off),
    }
}
fn ma_spec() -> impl Strategy<Value = (Spec, usize)> {
    // (spec, kind) kind: 0 Sma 1 Ema 2 EmaAlpha 3 Alma 4 AlmaCustom
    (0usize..5, 0usize..8, 0usize..54, 0usize..26).prop_map(|(kind, j, si, oi)| (kind, j, si, oi)).prop_flat_map(|(kind, j, si, oi)| (1usize..=40).prop_map(move |n| (ma_spec_of(kind, j, si, oi, n), kind)))
}
/// fz_single: one of the moving averages, then the clause (bounds, definition at Q / f64, gated, affine) and the stream
pub fn fuzz_decode(u: &mut arbitrary::Unstructured) -> Option<(String, Case)> {
    let kind = u.int_in_range(0..=4usize).ok()?;
    let spec = ma_spec_of(kind, u.int_in_range(0..=7usize).ok()?, u.int_in_range(0..=53usize).ok()?, u.int_in_range(0..=25usize).ok()?, 1 + u.int_in_range(0..=39usize).ok()?);
    let which = u.int_in_range(0..=4u8).ok()?;
    let (k, p, q, r) = (1 + u.int_in_range(0..=8i64).ok()?, 1 + u.int_in_range(0..=63i64).ok()?, 1 + u.int_in_range(0..=63i64).ok()?, u.int_in_range(-4096..=4096i64).ok()?);
    let xs = crate::fuzzdec::stream(u, false, 160);
    let def = |sc: &str| if kind == 0 { "C04/bounds/Q".to_string() } else { format!("C04/{}/definition/{sc}", if kind <= 2 { "Ema" } else { "Alma" }) };
    Some(match which {
        0 => ("C04/bounds/Q".into(), Case::of(spec, xs)),
        1 => (def("Q"), Case::of(spec, xs)),
        2 => (def("f64"), Case::of(spec, xs)),
        3 => ("C04/gated/Q".into(), Case { spec: Some(spec), xs, ints: vec![k], a: Rat(1, 1), ..Default::default() }),
        _ => ("C04/affine/Q".into(), Case { spec: Some(spec), xs, a: Rat(p, q), b: Rat(r, 8), ..Default::default() }),
    })
}
fn vname(s: &Spec) -> &'static str {
    match s {
        Spec::Sma(..) => "Sma",
        Spec::Ema(..) | Spec::EmaAlpha(..) => "Ema",
        _ => "Alma",
    }
}
fn window_of(s: &Spec) -> usize {
    s.own_windows()[0]
}

/// streams with zeros, sign changes and prefixes that drive an EMA state to exactly 0
fn ma_stream(spec: &Spec, decimal: bool) -> BoxedStrategy<Vec<Rat>> {
    let n = window_of(spec);
    let is_default_ema = matches!(spec, Spec::Ema(..));
    let scale = if decimal { gen::decimal_scale() } else { gen::dyadic_scale_wide() };
    (scale, 0usize..4, 1i64..500)
        .prop_flat_map(move |(sc, mode, k)| {
            gen::stream(StreamCfg::new(n).scale(sc).len(0, 4 * n + 8)).prop_map(move |xs| {
                let mut pre: Vec<Rat> = vec![];
                match mode {
                    1 => pre.push(Rat(0, 1)),                                     // first value 0: state is exactly 0 at once
                    2 if is_default_ema && n >= 2 => {
                        // e_0 = 2k u, x_1 = -k (N-1) u  =>  e_1 = 2/(N+1) x_1 + (N-1)/(N+1) e_0 = 0
                        pre.push(Rat(2 * k * sc.0, sc.1));
                        pre.push(Rat(-k * (n as i64 - 1) * sc.0, sc.1));
                    }
                    3 => pre.extend([Rat(k * sc.0, sc.1), Rat(-k * sc.0, sc.1), Rat(0, 1), Rat(0, 1)]),
                    _ => {}
                }
                pre.extend(xs);
                pre
            })
        })
        .boxed()
}

fn base_strategy(decimal: bool) -> impl Fn(Tier) -> BoxedStrategy<Case> + Send + Sync {
    move |tier: Tier| {
        let short = ma_spec().prop_flat_map(move |(spec, _)| ma_stream(&spec, decimal).prop_map(move |xs| Case::of(spec.clone(), xs)));
        // one case in eight is a long history (300..1200 values) over a small window: defects that need hundreds of updates
        let long = ma_spec().prop_flat_map(move |(spec, _)| {
            let spec = shrink_window(&spec, 8);
            let n = window_of(&spec);
            let sc = if decimal { Rat(1, 100) } else { Rat(1, 8) };
            gen::long_stream(StreamCfg::new(n).scale(sc).kmax(512), 300, tier.pick(700, 4000)).prop_map(move |xs| Case::of(spec.clone(), xs))
        });
        prop_oneof![15 => short, 1 => long].boxed()
    }
}
/// same view with its window reduced to at most `cap` (keeps long exact runs cheap)
fn shrink_window(s: &Spec, cap: usize) -> Spec {
    let m = |n: usize| 1 + (n - 1) % cap;
    match s {
        Spec::Sma(a, n) => Spec::Sma(a.clone(), m(*n)),
        Spec::Ema(a, n) => Spec::Ema(a.clone(), m(*n)),
        Spec::EmaAlpha(a, n, al) => Spec::EmaAlpha(a.clone(), m(*n), al * (m(*n) as f64 + 1.0) / (*n as f64 + 1.0)),
        Spec::Alma(a, n) => Spec::Alma(a.clone(), m(*n)),
        Spec::AlmaCustom(a, n, x, y) => Spec::AlmaCustom(a.clone(), m(*n), *x, *y),
        o => o.clone(),
    }
}

fn span_of(spec: &Spec, h: &[R], t: usize) -> (R, R) {
    let n = window_of(spec);
    let w = if vname(spec) == "Ema" { &h[..=t] } else { refs::window(h, t, n) };
    (refs::min_of(w), refs::max_of(w))
}

fn state_hits_zero(outs: &[Option<XV>]) -> bool {
    outs.iter().any(|o| matches!(o, Some(XV::Fin(r)) if r.is_zero()))
}

fn bounds_q(case: &Case) -> Verdict {
    let spec = case.spec();
    let h = bigs(&case.xs);
    let outs = run_q(spec, &h);
    let name = vname(spec);
    let mut seen = 0;
    for (t, o) in outs.iter().enumerate() {
        if let Some(v) = o {
            let Some(v) = v.fin() else {
                return Verdict::fail(format!("C04/bounds/Q|{name}|nonfinite"), format!("{} step {t}: non-finite output; input {}", spec.show(), show_rats(&case.xs)));
            };
            let (lo, hi) = span_of(spec, &h, t);
            let tol = tol_q(&(hi.abs() + lo.abs()));
            if v < &(&lo - &tol) || v > &(&hi + &tol) {
                return Verdict::fail(format!("C04/bounds/Q|{name}|value"), format!("{} step {t}: output {} outside the span [{}, {}] of the values it averages; input {}", spec.show(), show(v), show(&lo), show(&hi), show_rats(&case.xs)));
            }
            seen += 1;
        }
    }
    let mut l = gen::shape_labels(&case.xs, window_of(spec));
    l.push(name.to_string());
    if state_hits_zero(&outs) {
        l.push("state_hits_zero".into());
    }
    Verdict::pass(seen >= 3 && case.xs.len() > window_of(spec), l)
}

fn bounds_f64(case: &Case) -> Verdict {
    let spec = case.spec();
    let xs = f64s(&case.xs);
    let h = bigs_of_f64(&xs);
    let outs = run_f64(spec, &xs);
    let name = vname(spec);
    let n = window_of(spec);
    let maxabs = running_max_abs(&h);
    let mut seen = 0;
    for (t, o) in outs.iter().enumerate() {
        if let Some(v) = o {
            if !v.is_finite() {
                return Verdict::fail(format!("C04/bounds/f64|{name}|nonfinite"), format!("{} step {t}: non-finite output; input {}", spec.show(), show_rats(&case.xs)));
            }
            let (lo, hi) = span_of(spec, &h, t);
            // running sums carry rounding residue of everything that passed through: 4 N eps x largest magnitude seen
            let tol = f(4.0 * n as f64 * f64::EPSILON) * (&maxabs[t] + R::one()) * R::from_integer((((t / n.max(1)) + 1) as i64).into());
            let v = f(*v);
            if v < &lo - &tol || v > &hi + &tol {
                q::arena_reset();
                let exact_ok = matches!(bounds_q(case), Verdict::Pass { .. });
                return Verdict::fail(format!("C04/bounds/f64|{name}|value{}", if exact_ok { "|exact_ok" } else { "" }), format!("{} step {t}: output {} outside the span [{}, {}] by more than rounding noise; input {}", spec.show(), show(&v), show(&lo), show(&hi), show_rats(&case.xs)));
            }
            seen += 1;
        }
    }
    let mut l = gen::shape_labels(&case.xs, n);
    l.push(name.to_string());
    Verdict::pass(seen >= 3 && case.xs.len() > n, l)
}

fn constant_case(decimal: bool) -> impl Fn(Tier) -> BoxedStrategy<Case> + Send + Sync {
    move |_t: Tier| {
        (ma_spec(), -40_000i64..40_000, if decimal { gen::decimal_scale() } else { gen::dyadic_scale() }, 1usize..5)
            .prop_map(|((spec, _), k, sc, mult)| {
                let n = window_of(&spec);
                let c = Rat(k * sc.0, sc.1);
                // every fifth case is a long constant stream (defects that need hundreds of updates)
                let len = if k % 5 == 0 { 300 + (k.unsigned_abs() as usize % 700) } else { mult * n + 3 };
                Case::of(spec, vec![c; len])
            })
            .boxed()
    }
}
fn constant_check(exact: bool) -> impl Fn(&Case) -> Verdict + Send + Sync {
    move |case: &Case| {
        let spec = case.spec();
        let name = vname(spec);
        let n = window_of(spec);
        let sc = if exact { "Q" } else { "f64" };
        if exact {
            let c = case.xs[0].big();
            let outs = run_q(spec, &bigs(&case.xs));
            let mut seen = 0;
            for (t, o) in outs.iter().enumerate() {
                if let Some(v) = o {
                    if v.fin().map(|v| abs_diff(v, &c) <= tol_q(&c)) != Some(true) {
                        return Verdict::fail(format!("C04/constant/{sc}|{name}|value"), format!("{} step {t}: constant input {} gave {}", spec.show(), show(&c), v.show()));
                    }
                    seen += 1;
                }
            }
            if seen == 0 {
                return Verdict::fail(format!("C04/constant/{sc}|{name}|readiness"), format!("{}: no output after {} values", spec.show(), case.xs.len()));
            }
        } else {
            let xs = f64s(&case.xs);
            let c = xs[0];
            let outs = run_f64(spec, &xs);
            for (t, o) in outs.iter().enumerate() {
                if let Some(v) = o {
                    let tol = 4.0 * n as f64 * f64::EPSILON * c.abs() * ((t / n + 1) as f64);
                    if !((v - c).abs() <= tol) {
                        return Verdict::fail(format!("C04/constant/{sc}|{name}|value"), format!("{} step {t}: constant input {c:e} gave {v:e}", spec.show()));
                    }
                }
            }
        }
        Verdict::pass(!case.xs[0].is_zero() && case.xs.len() > n, vec![name.to_string(), if case.xs[0].is_zero() { "zero_constant".into() } else { "nonzero_constant".into() }])
    }
}

/// y = x + non-negative bumps  =>  out_y >= out_x at every step
fn monotone_case() -> impl Fn(Tier) -> BoxedStrategy<Case> + Send + Sync {
    move |_t: Tier| {
        ma_spec()
            .prop_flat_map(|(spec, _)| {
                let n = window_of(&spec);
                (ma_stream(&spec, false), gen::stream(StreamCfg::new(n).scale(Rat(1, 64)).len(4 * n + 12, 4 * n + 12)), 0usize..3).prop_map(move |(xs, bumps, sparsity)| {
                    // bumps: absolute values; sparse modes raise only a few inputs
                    let ys: Vec<Rat> = xs
                        .iter()
                        .zip(bumps.iter())
                        .enumerate()
                        .map(|(i, (_x, b))| {
                            let keep = match sparsity {
                                0 => true,
                                1 => i % 3 == 0,
                                _ => i == xs.len() / 2,
                            };
                            if keep {
                                Rat(b.0.abs(), b.1)
                            } else {
                                Rat(0, 1)
                            }
                        })
                        .collect();
                    Case { spec: Some(spec.clone()), xs, ys, a: Rat(1, 1), ..Default::default() }
                })
            })
            .boxed()
    }
}
fn monotone_check(case: &Case) -> Verdict {
    let spec = case.spec();
    let name = vname(spec);
    let x = bigs(&case.xs);
    let y: Vec<R> = x.iter().zip(bigs(&case.ys).iter()).map(|(a, b)| a + b).collect();
    let (ox, oy) = (run_q(spec, &x), run_q(spec, &y));
    let mut raised = false;
    for t in 0..x.len() {
        match (&ox[t], &oy[t]) {
            (None, None) => {}
            (Some(a), Some(b)) => {
                let (Some(a), Some(b)) = (a.fin(), b.fin()) else {
                    return Verdict::fail(format!("C04/monotone/Q|{name}|nonfinite"), format!("{} step {t}: non-finite output", spec.show()));
                };
                if b < &(a - tol_q(&(a.abs() + R::one()))) {
                    return Verdict::fail(format!("C04/monotone/Q|{name}|value"), format!("{} step {t}: raising inputs lowered the output from {} to {}; x = {}, bumps = {}", spec.show(), show(a), show(b), show_rats(&case.xs), show_rats(&case.ys)));
                }
                if b > a {
                    raised = true;
                }
            }
            _ => return Verdict::fail(format!("C04/monotone/Q|{name}|readiness"), format!("{} step {t}: readiness depends on the values", spec.show())),
        }
    }
    let mut l = vec![name.to_string()];
    if state_hits_zero(&ox) || state_hits_zero(&oy) {
        l.push("state_hits_zero".into());
    }
    Verdict::pass(raised, l)
}

/// view(a x + b) = a view(x) + b for a > 0
fn affine_case() -> impl Fn(Tier) -> BoxedStrategy<Case> + Send + Sync {
    move |_t: Tier| {
        (ma_spec(), 1i64..=64, 1i64..=64, -4096i64..=4096)
            .prop_flat_map(|((spec, _), p, q, r)| ma_stream(&spec, false).prop_map(move |xs| Case { spec: Some(spec.clone()), xs, a: Rat(p, q), b: Rat(r, 8), ..Default::default() }))
            .boxed()
    }
}
fn affine_check(case: &Case) -> Verdict {
    let spec = case.spec();
    let name = vname(spec);
    let (a, b) = (case.a.big(), case.b.big());
    let x = bigs(&case.xs);
    let y: Vec<R> = x.iter().map(|v| &a * v + &b).collect();
    let (ox, oy) = (run_q(spec, &x), run_q(spec, &y));
    let mut compared = 0;
    for t in 0..x.len() {
        match (&ox[t], &oy[t]) {
            (None, None) => {}
            (Some(u), Some(v)) => {
                let (Some(u), Some(v)) = (u.fin(), v.fin()) else {
                    return Verdict::fail(format!("C04/affine/Q|{name}|nonfinite"), format!("{} step {t}: non-finite output", spec.show()));
                };
                let want = &a * u + &b;
                if abs_diff(&want, v) > tol_q(&(want.abs() + R::one())) {
                    return Verdict::fail(format!("C04/affine/Q|{name}|value"), format!("{} step {t}: view(a x + b) = {} but a view(x) + b = {} (a = {}/{}, b = {}/{}); x = {}", spec.show(), show(v), show(&want), case.a.0, case.a.1, case.b.0, case.b.1, show_rats(&case.xs)));
                }
                compared += 1;
            }
            _ => return Verdict::fail(format!("C04/affine/Q|{name}|readiness"), format!("{} step {t}: readiness depends on the values", spec.show())),
        }
    }
    let mut l = vec![name.to_string()];
    if state_hits_zero(&ox) || state_hits_zero(&oy) {
        l.push("state_hits_zero".into());
    }
    Verdict::pass(compared >= 3 && !(case.a == Rat(1, 1) && case.b.is_zero()), l)
}

/// definitional references: Ema recurrence, Alma kernel
fn definition_wants(spec: &Spec, h: &[R]) -> Option<Vec<Want>> {
    match spec {
        Spec::Ema(_, n) => Some(refs::ema(h, *n, &refs::ri(2))),
        Spec::EmaAlpha(_, n, al) => Some(refs::ema(h, *n, &f(*al))),
        Spec::Alma(_, n) => Some(refs::alma(h, *n, &f(6.0), &f(0.85))),
        Spec::AlmaCustom(_, n, s, o) => Some(refs::alma(h, *n, &f(*s), &f(*o))),
        _ => None,
    }
}
fn def_case(want_alma: bool, decimal: bool) -> impl Fn(Tier) -> BoxedStrategy<Case> + Send + Sync {
    move |_t: Tier| {
        ma_spec()
            .prop_filter_map("kind", move |(s, k)| if (want_alma && k >= 3) || (!want_alma && (k == 1 || k == 2)) { Some(s) } else { None })
            .prop_flat_map(move |spec| ma_stream(&spec, decimal).prop_map(move |xs| Case::of(spec.clone(), xs)))
            .boxed()
    }
}
fn def_q(case: &Case) -> Verdict {
    let spec = case.spec();
    let name = vname(spec);
    let h = bigs(&case.xs);
    let wants = definition_wants(spec, &h).expect("Ema or Alma");
    let outs = run_q(spec, &h);
    let maxabs = running_max_abs(&h);
    let irr = name == "Alma";
    let tol = |t: usize| if irr { tol_q_irr(&(&maxabs[t] + R::one())) } else { tol_q(&(&maxabs[t] + R::one())) };
    match compare_q(&outs, &wants, &tol) {
        Ok(_) => {
            let n = window_of(spec);
            let mut l = gen::shape_labels(&case.xs, n);
            if state_hits_zero(&outs) {
                l.push("state_hits_zero".into());
            }
            if case.xs.len() >= 3 * n {
                l.push("slid_by_more_than_2N".into());
            }
            Verdict::pass(case.xs.len() >= 2 * n + 2, l)
        }
        Err(m) => Verdict::fail(format!("C04/{name}/definition/Q|{}", m.aspect), fail_msg(spec, "Q", &case.xs, &m)),
    }
}
fn def_f64(case: &Case) -> Verdict {
    let spec = case.spec();
    let name = vname(spec);
    let xs = f64s(&case.xs);
    let h = bigs_of_f64(&xs);
    let wants = definition_wants(spec, &h).expect("Ema or Alma");
    let outs = run_f64(spec, &xs);
    let maxabs = running_max_abs(&h);
    match compare_f64(&outs, &wants, &|t, _r| f(1e-9) * (&maxabs[t] + R::one())) {
        Ok(_) => {
            let n = window_of(spec);
            Verdict::pass(case.xs.len() >= 2 * n + 2, gen::shape_labels(&case.xs, n))
        }
        Err(m) => {
            // same stream (the f64 values, exactly) through the exact scalar
            q::arena_reset();
            let outs_q = run_q(spec, &h);
            let exact_ok = compare_q(&outs_q, &wants, &|t| tol_q_irr(&(&maxabs[t] + R::one()))).is_ok();
            Verdict::fail(format!("C04/{name}/definition/f64|{}{}", m.aspect, if exact_ok { "|exact_ok" } else { "" }), fail_msg(spec, "f64", &case.xs, &m))
        }
    }
}

/// the same averages over an inner view that withholds its first k inputs (a warming-up inner view): the average must ignore
/// the updates during which it was delivered nothing and then follow its definition on the delivered values
fn gated_case() -> impl Fn(Tier) -> BoxedStrategy<Case> + Send + Sync {
    move |_t: Tier| ma_spec().prop_flat_map(|(spec, _)| (ma_stream(&spec, false), 1i64..=9).prop_map(move |(xs, k)| Case { spec: Some(spec.clone()), xs, ints: vec![k], a: Rat(1, 1), ..Default::default() })).boxed()
}
fn gated_check(case: &Case) -> Verdict {
    use sliding_features::View;
    let spec = case.spec();
    let name = vname(spec);
    let k = case.ints[0] as usize;
    let h = bigs(&case.xs);
    // reference: the plain view over Echo fed only the delivered values
    let plain = run_q(spec, &h);
    let mut v = build_gated::<q::Q>(spec, k);
    let before = v.last().map(|o| o.extract());
    // k withheld inputs (arbitrary values), then the stream
    for j in 0..k {
        v.update(qv(&R::from_integer(((j as i64 + 1) * 1000).into())));
        let now = v.last().map(|o| o.extract());
        if now != before {
            return Verdict::fail(format!("C04/gated/Q|{name}|changed_while_undelivered"), format!("{} over a leaf withholding its first {k} inputs: answer changed from {} to {} at withheld update {}", spec.show(), show_opt(&before), show_opt(&now), j + 1));
        }
    }
    for (t, x) in h.iter().enumerate() {
        v.update(qv(x));
        let got = v.last().map(|o| o.extract());
        let same = match (&got, &plain[t]) {
            (None, None) => true,
            (Some(a), Some(b)) => match (a.fin(), b.fin()) {
                (Some(a), Some(b)) => abs_diff(a, b) <= tol_q(&(b.abs() + R::one())),
                _ => a == b,
            },
            _ => false,
        };
        if !same {
            return Verdict::fail(format!("C04/gated/Q|{name}|value"), format!("{} over a leaf withholding its first {k} inputs: after {} delivered values it reports {} but the same average fed only the delivered values reports {}; delivered {}", spec.show(), t + 1, show_opt(&got), show_opt(&plain[t]), show_rats(&case.xs)));
        }
    }
    Verdict::pass(case.xs.len() > window_of(spec), vec![name.to_string()])
}

/// very long f64 runs (past 2^16 and 2^17 updates); ints = [seed, len, shape], inputs on the 1/8 grid (exact in f64).
/// Ema: an independent f64 evaluation of the recurrence and the span of everything seen, at every step. Sma / Alma: the
/// definition from the last values at the checkpoints of gen::ultra_checkpoints, and the window's span at every step.
fn ultra_check(case: &Case) -> Verdict {
    use sliding_features::View;
    let spec = case.spec();
    let name = vname(spec);
    let n = window_of(spec);
    let (seed, len, shape) = (case.ints[0] as u64, case.ints[1] as usize, case.ints[2]);
    let ks = gen::ultra_stream(seed, len, shape);
    let cps = gen::ultra_checkpoints(seed, len, n, if name == "Alma" { 40 } else { 120 });
    let mut v = build::<f64>(spec);
    let w = match spec {
        Spec::Ema(..) => 2.0 / (n as f64 + 1.0),
        Spec::EmaAlpha(_, _, al) => al / (n as f64 + 1.0),
        _ => 0.0,
    };
    let (mut e, mut lo, mut hi, mut mag) = (0.0f64, f64::INFINITY, f64::NEG_INFINITY, 1.0f64);
    let mut win: std::collections::VecDeque<f64> = std::collections::VecDeque::new();
    let mut ci = 0;
    let mut compared = 0;
    let ctx = |t: usize| format!("after {} updates (stream: seed {seed}, len {len}, shape {shape}, grid 1/8)", t + 1);
    for (t, k) in ks.iter().enumerate() {
        let x = *k as f64 / 8.0;
        v.update(x);
        let out = v.last();
        mag = mag.max(x.abs() + 1.0);
        let noise = 4.0 * n as f64 * f64::EPSILON * mag * ((t / n.max(1)) + 1) as f64;
        if name == "Ema" {
            e = if t == 0 { x } else { x * w + e * (1.0 - w) };
            lo = lo.min(x);
            hi = hi.max(x);
            match out {
                None if t + 1 < n => {}
                Some(o) if t + 1 >= n && o.is_finite() && (o - e).abs() <= 1e-9 * mag && o >= lo - noise && o <= hi + noise => compared += 1,
                other => return Verdict::fail("C04/Ema/ultra/f64|value", format!("{} {}: reported {other:?}, the recurrence e_t = w x_t + (1-w) e_(t-1) gives {e:e} (span of the inputs [{lo:e}, {hi:e}])", spec.show(), ctx(t))),
            }
        } else {
            win.push_back(x);
            if win.len() > n {
                win.pop_front();
            }
            if let Some(o) = out {
                let (wl, wh) = win.iter().fold((f64::INFINITY, f64::NEG_INFINITY), |(a, b), y| (a.min(*y), b.max(*y)));
                if !o.is_finite() || o < wl - noise || o > wh + noise {
                    return Verdict::fail(format!("C04/{name}/ultra/f64|bounds"), format!("{} {}: output {o:e} outside the span [{wl:e}, {wh:e}] of the last {} values", spec.show(), ctx(t), win.len()));
                }
            } else if t + 1 >= n {
                return Verdict::fail(format!("C04/{name}/ultra/f64|readiness"), format!("{} {}: reported nothing", spec.show(), ctx(t)));
            }
            if ci < cps.len() && cps[ci] == t {
                ci += 1;
                if t >= 2 * n + 2 {
                    let h: Vec<R> = ks[t - 2 * n - 1..=t].iter().map(|k| R::new((*k).into(), 8.into())).collect();
                    let want = match spec {
                        Spec::Sma(..) => refs::sma(&h, n).pop().unwrap(),
                        _ => definition_wants(spec, &h).expect("Alma").pop().unwrap(),
                    };
                    if let Err(m) = compare_f64(&[out], &[want], &|_, _| f(1e-9) * f(mag)) {
                        return Verdict::fail(format!("C04/{name}/ultra/f64|{}", m.aspect), format!("{} {}: {}; the last {} inputs were {}", spec.show(), ctx(t), m.detail, h.len(), show_bigs(&h)));
                    }
                    compared += 1;
                }
            }
        }
    }
    Verdict::pass(compared >= 8 && len > 70_000, vec![name.to_string(), format!("shape_{shape}")])
}

pub fn clauses() -> Vec<Clause> {
    let gen_rule = "view drawn from Sma(N), Ema(N), Ema::with_alpha(N, alpha = (N+1) j/8, j = 1..8), Alma(N), Alma::new_custom(N, sigma in {0.5,1,2,4,6,8,12} or 0.5 + 0.25 i <= 12, offset in {0,.25,.5,.85,1} or 0.05 i), N in 1..40; grammar stream of 0..4N+8 values (zeros, sign changes, ties, flats) optionally prefixed so that the EMA state is exactly 0 (first value 0; [2k, -k(N-1)]; [k,-k,0,0]).";
    vec![
        Clause::generated("C04", "C04/bounds/Q", format!("{gen_rule} Oracle: every output lies in the closed span of the last N raw values (all values so far for Ema), decided exactly. Non-trivial: >= 3 outputs and an eviction."), 3000, 80_000, base_strategy(false), bounds_q).with_shard(200),
        Clause::generated("C04", "C04/bounds/f64", format!("{gen_rule} Decimal grids (inputs not representable). Oracle: span of the f64 inputs widened by 4 N eps x largest magnitude seen x (1 + t/N). Non-trivial as above."), 3000, 80_000, base_strategy(true), bounds_f64).with_shard(400),
        Clause::generated("C04", "C04/constant/Q", "same views; constant stream c of 1..4 N + 3 values, c on a dyadic grid incl. 0 and negatives. Oracle: every output equals c exactly. Non-trivial: c != 0 and the window slid.", 1500, 40_000, constant_case(false), constant_check(true)).with_shard(300),
        Clause::generated("C04", "C04/constant/f64", "same, decimal c; |out - c| <= 4 N eps |c| (1 + t/N).", 1500, 40_000, constant_case(true), constant_check(false)).with_shard(500),
        Clause::generated("C04", "C04/monotone/Q", format!("{gen_rule} Second stream y = x + non-negative bumps (all, every third, or a single input raised). Oracle: out_y >= out_x at every step, identical readiness. Non-trivial: some output strictly rose."), 2000, 60_000, monotone_case(), monotone_check).with_shard(150),
        Clause::generated("C04", "C04/affine/Q", format!("{gen_rule} a = p/q (1..64), b = r/8. Oracle: view(a x + b) = a view(x) + b exactly. Non-trivial: (a,b) != (1,0) and >= 3 outputs compared."), 2000, 60_000, affine_case(), affine_check).with_shard(150),
        Clause::generated("C04", "C04/Ema/definition/Q", format!("{gen_rule} Oracle: e_0 = x_0, e_t = w x_t + (1-w) e_(t-1), w = alpha/(N+1), nothing before N values, every step. Non-trivial: >= N+2 steps after readiness; label state_hits_zero."), 2500, 60_000, def_case(false, false), def_q).with_shard(150),
        Clause::generated("C04", "C04/Ema/definition/f64", "same on decimal grids, tolerance 1e-9 x largest magnitude.", 2500, 60_000, def_case(false, true), def_f64).with_shard(300),
        Clause::generated("C04", "C04/Alma/definition/Q", format!("{gen_rule} Oracle: sum w_k x_k / sum w_k over window positions k = 0 (oldest) .. n-1, w_k = exp(-(k - offset (N+1))^2 / (2 (N/sigma)^2)) with the exact scalar's exp; every step. Non-trivial: >= N+2 evictions; label slid_by_more_than_2N."), 2500, 60_000, def_case(true, false), def_q).with_shard(100),
        Clause::generated("C04", "C04/gated/Q", format!("{gen_rule} The view sits over a leaf that withholds its first k in 1..9 inputs (a warming-up inner view). Oracle: its answer does not change during the k withheld updates, and afterwards it equals, step by step, the same average over Echo fed only the delivered values. Non-trivial: the window slid."), 2000, 50_000, gated_case(), gated_check).with_shard(150),
        Clause::generated("C04", "C04/ultra/f64", "same views; 135 000 values (thorough 1.1e6; past 2^16 and 2^17 updates) on the 1/8 grid derived from a generated seed (wide noise, walk with plateaus, zero stretches, ties around a level), f64 run. Ema: an independent f64 evaluation of the recurrence (1e-9 x magnitude) and the span of all inputs, at every step; Sma and Alma: the span of the last N values at every step and the definition from the last values at up to 120 (Alma 40) checkpoints: every power of two from 2^16 on, N+1 steps after it, the last steps, seeded steps. Non-trivial: >= 8 steps compared.", 10, 200, |tier| (ma_spec(), any::<u64>(), 0i64..4).prop_map(move |((spec, _), seed, shape)| Case { spec: Some(spec), ints: vec![(seed >> 1) as i64, tier.pick(135_000, 1_100_000) as i64, shape], a: Rat(1, 1), ..Default::default() }).boxed(), ultra_check).with_shard(2),
        Clause::generated("C04", "C04/Alma/definition/f64", "same on decimal grids, tolerance 1e-9 x largest magnitude.", 2500, 60_000, def_case(true, true), def_f64).with_shard(300),
    ]
}
