//! C14 — Combinators are pointwise, stateless functions of their children.
//! Oracle: stand-alone twins of the children run beside the combinator; after every update the combinator's output must be,
//! bit for bit, the operation applied to the twins' current outputs (None unless both are present).
use super::c15::safe_min_window;
use crate::catalog::*;
use crate::core::*;
use crate::exec::*;
use crate::gen::{self, StreamCfg};
use crate::q::Q;
use crate::runner::guarded;
use proptest::prelude::*;
use sliding_features::View;

/// a child view: Echo, Constant, or any unary view over Echo (windows at or above the listed-finding thresholds)
fn child_of(w: usize, n: usize, c: i64) -> Spec {
    if w == 38 {
        return Spec::Echo;
    }
    if w == 39 {
        return Spec::Constant(c as f64 / 8.0);
    }
    let cands = unary_over(&Spec::Echo, n);
    let s = cands[w % cands.len()].clone();
    let need = safe_min_window(s.name());
    if n < need {
        let c2 = unary_over(&Spec::Echo, need);
        c2[w % c2.len()].clone()
    } else {
        s
    }
}
fn child() -> BoxedStrategy<Spec> {
    (0usize..40, 1usize..=12, 0usize..8, -64i64..=64).prop_map(|(w, n, _p, c)| child_of(w, n, c)).boxed()
}
/// fz_single: combinator, two children, scalar, stream (positive where a child or the division needs it)
pub fn fuzz_decode(u: &mut arbitrary::Unstructured) -> Option<(String, Case)> {
    let op = u.int_in_range(0..=3usize).ok()?;
    let a = child_of(u.int_in_range(0..=39usize).ok()?, 1 + u.int_in_range(0..=11usize).ok()?, u.int_in_range(-64..=64i64).ok()?);
    let b = child_of(u.int_in_range(0..=39usize).ok()?, 1 + u.int_in_range(0..=11usize).ok()?, u.int_in_range(-64..=64i64).ok()?);
    let scalar = u.int_in_range(0..=2i64).ok()?;
    let c = 1 + u.int_in_range(0..=511i64).ok()?;
    let b = if op == 3 && !b.positivity_preserving() { Spec::Constant(c as f64 / 8.0) } else { b };
    let positive = a.needs_positive_input() || b.needs_positive_input() || op == 3;
    let xs = crate::fuzzdec::stream(u, positive, 200);
    Some((format!("C14/{}/pointwise", OPS[op]), Case { spec: Some(a), spec2: Some(b), xs, ints: vec![op as i64, scalar], a: Rat(1, 1), ..Default::default() }))
}

fn binary_case(op: usize) -> impl Fn(Tier) -> BoxedStrategy<Case> + Send + Sync {
    move |_t: Tier| {
        (child(), child(), 0i64..3, 1i64..=512)
            .prop_flat_map(move |(a, b, scalar, c)| {
                // Divide: the divisor must be non-zero: a positive constant, or a positivity-preserving child over positive input
                let b = if op == 3 && !b.positivity_preserving() { Spec::Constant(c as f64 / 8.0) } else { b };
                let positive = a.needs_positive_input() || b.needs_positive_input() || op == 3;
                let n = a.max_window().max(b.max_window()).max(2);
                let mut cfg = StreamCfg::new(n).scale(Rat(1, 8)).len(0, 4 * n + 10);
                if positive {
                    cfg = cfg.positive();
                }
                gen::stream_nz(cfg).prop_map(move |xs| Case { spec: Some(a.clone()), spec2: Some(b.clone()), xs, ints: vec![op as i64, scalar], a: Rat(1, 1), ..Default::default() })
            })
            .boxed()
    }
}

fn mk_binary(op: i64, a: &Spec, b: &Spec) -> Spec {
    let (a, b) = (Box::new(a.clone()), Box::new(b.clone()));
    match op {
        0 => Spec::Add(a, b),
        1 => Spec::Subtract(a, b),
        2 => Spec::Multiply(a, b),
        _ => Spec::Divide(a, b),
    }
}
const OPS: [&str; 4] = ["Add", "Subtract", "Multiply", "Divide"];

trait Bits: Scalar {
    fn same(self, o: Self) -> bool;
}
impl Bits for f64 {
    fn same(self, o: f64) -> bool {
        self.to_bits() == o.to_bits() || (self == 0.0 && o == 0.0)
    }
}
impl Bits for f32 {
    fn same(self, o: f32) -> bool {
        self.to_bits() == o.to_bits() || (self == 0.0 && o == 0.0)
    }
}
impl Bits for Q {
    fn same(self, o: Q) -> bool {
        self.extract() == o.extract()
    }
}

fn run_binary<T: Bits>(op: i64, a: &Spec, b: &Spec, xs: &[T]) -> Result<(usize, usize, bool), String> {
    // Ok((steps with both present, steps with a != b, saw None->Some in both orders approx))
    let mut comb = build::<T>(&mk_binary(op, a, b));
    let (mut ta, mut tb) = (build::<T>(a), build::<T>(b));
    let (mut both, mut differ) = (0, 0);
    let mut orders = (false, false);
    if comb.last().is_some() != (ta.last().is_some() && tb.last().is_some()) {
        return Err("before the first update: presence differs from (both children present)".into());
    }
    for (i, x) in xs.iter().enumerate() {
        comb.update(*x);
        ta.update(*x);
        tb.update(*x);
        let (la, lb) = (ta.last(), tb.last());
        match (la, lb) {
            (Some(_), None) => orders.0 = true,
            (None, Some(_)) => orders.1 = true,
            _ => {}
        }
        let want = match (la, lb) {
            (Some(p), Some(q)) => {
                both += 1;
                if !p.same(q) {
                    differ += 1;
                }
                if op == 3 && q == T::zero() {
                    return Err("DISCARD zero divisor".into());
                }
                Some(match op {
                    0 => p + q,
                    1 => p - q,
                    2 => p * q,
                    _ => p / q,
                })
            }
            _ => None,
        };
        let got = comb.last();
        let ok = match (got, want) {
            (None, None) => true,
            (Some(g), Some(w)) => g.same(w) || (g.is_nan() && w.is_nan()),
            _ => false,
        };
        if !ok {
            return Err(format!("step {i}: combinator reports {got:?}, children report a = {la:?}, b = {lb:?} (expected {want:?})"));
        }
    }
    Ok((both, differ, orders.0 || orders.1))
}

fn binary_check(case: &Case) -> Verdict {
    let (a, b) = (case.spec(), case.spec2.as_ref().unwrap());
    let (op, scalar) = (case.ints[0], case.ints[1]);
    let sc = ["f64", "f32", "Q"][scalar as usize];
    let id = format!("C14/{}/pointwise|{sc}", OPS[op as usize]);
    let r = guarded(|| match scalar {
        0 => run_binary::<f64>(op, a, b, &f64s(&case.xs)),
        1 => run_binary::<f32>(op, a, b, &f32s(&case.xs)),
        _ => run_binary::<Q>(op, a, b, &bigs(&case.xs).iter().map(qv).collect::<Vec<_>>()),
    });
    match r {
        Err(p) if p.contains("Can compare elements") => Verdict::Discard("a child left the domain (NaN reached Min/Max)".into()),
        Err(p) => Verdict::fail(format!("{id}|panic"), format!("{}: {p}", mk_binary(op, a, b).show())),
        Ok(Err(m)) if m.starts_with("DISCARD") => Verdict::Discard("divisor child produced 0".into()),
        Ok(Err(m)) => Verdict::fail(format!("{id}|value"), format!("{}: {m}; input {}", mk_binary(op, a, b).show(), show_rats(&case.xs))),
        Ok(Ok((both, differ, orders))) => {
            let mut l = vec![sc.to_string()];
            if orders {
                l.push("one_child_ready_before_the_other".into());
            }
            if differ > 0 {
                l.push("children_differ".into());
            }
            Verdict::pass(both >= 3 && differ >= 1, l)
        }
    }
}

/// unary pure functions over a child: Tanh, GTE, LTE; plus Echo and Constant themselves
fn unary_case() -> impl Fn(Tier) -> BoxedStrategy<Case> + Send + Sync {
    move |_t: Tier| {
        (child(), 0i64..5, 0i64..3, 0usize..64, -2000i64..2000)
            .prop_flat_map(|(a, kind, scalar, pick, c)| {
                let positive = a.needs_positive_input();
                let n = a.max_window().max(2);
                let mut cfg = StreamCfg::new(n).scale(Rat(1, 8)).len(1, 4 * n + 10).kmax(256);
                if positive {
                    cfg = cfg.positive();
                }
                gen::stream(cfg).prop_map(move |xs| {
                    // clip on the value grid: one of the stream's own values (so child == clip really happens when the child echoes)
                    let clip = if pick % 3 == 0 { Rat(c, 8) } else { xs[pick % xs.len()] };
                    Case { spec: Some(a.clone()), xs, ints: vec![kind, scalar], b: clip, a: Rat(1, 1), ..Default::default() }
                })
            })
            .boxed()
    }
}
const UN: [&str; 5] = ["Tanh", "GTE", "LTE", "Echo", "Constant"];
fn run_unary<T: Bits>(kind: i64, a: &Spec, clip: f64, xs: &[T]) -> Result<(usize, [bool; 3]), String> {
    let c: T = T::from(clip).unwrap();
    let spec = match kind {
        0 => Spec::Tanh(Box::new(a.clone())),
        1 => Spec::Gte(Box::new(a.clone()), clip),
        2 => Spec::Lte(Box::new(a.clone()), clip),
        3 => Spec::Echo,
        _ => Spec::Constant(clip),
    };
    let mut v = build::<T>(&spec);
    let mut twin = build::<T>(a);
    let mut branches = [false; 3];
    let mut present = 0;
    if kind == 4 {
        match v.last() {
            Some(g) if g.same(c) => {}
            other => return Err(format!("Constant reports {other:?} before any update")),
        }
    }
    for (i, x) in xs.iter().enumerate() {
        v.update(*x);
        twin.update(*x);
        let child = twin.last();
        let want: Option<T> = match kind {
            0 => child.map(|v| v.tanh()),
            1 => child.map(|v| if v >= c { v } else { c }),
            2 => child.map(|v| if v <= c { v } else { c }),
            3 => Some(*x),
            _ => Some(c),
        };
        if let Some(ch) = child {
            present += 1;
            if ch > c {
                branches[0] = true;
            } else if ch < c {
                branches[1] = true;
            } else if ch == c {
                branches[2] = true;
            }
        }
        let got = v.last();
        let ok = match (got, want) {
            (None, None) => true,
            (Some(g), Some(w)) => g.same(w) || (g.is_nan() && w.is_nan()),
            _ => false,
        };
        if !ok {
            return Err(format!("step {i}: reports {got:?} but its child reports {child:?} (expected {want:?}, clip/constant {clip})"));
        }
    }
    Ok((present, branches))
}
fn unary_check(case: &Case) -> Verdict {
    let a = case.spec();
    let (kind, scalar) = (case.ints[0], case.ints[1]);
    let sc = ["f64", "f32", "Q"][scalar as usize];
    let clip = case.b.f64();
    let id = format!("C14/{}/pointwise|{sc}", UN[kind as usize]);
    let r = guarded(|| match scalar {
        0 => run_unary::<f64>(kind, a, clip, &f64s(&case.xs)),
        1 => run_unary::<f32>(kind, a, clip, &f32s(&case.xs)),
        _ => run_unary::<Q>(kind, a, clip, &bigs(&case.xs).iter().map(qv).collect::<Vec<_>>()),
    });
    match r {
        Err(p) if p.contains("Can compare elements") => Verdict::Discard("a child left the domain (NaN reached Min/Max)".into()),
        Err(p) => Verdict::fail(format!("{id}|panic"), format!("{} over {}: {p}", UN[kind as usize], a.show())),
        Ok(Err(m)) => Verdict::fail(format!("{id}|value"), format!("{} over {}: {m}; input {}", UN[kind as usize], a.show(), show_rats(&case.xs))),
        Ok(Ok((present, br))) => {
            let mut l = vec![sc.to_string(), UN[kind as usize].to_string()];
            for (b, n) in br.iter().zip(["child_above_clip", "child_below_clip", "child_equals_clip"]) {
                if *b {
                    l.push(n.to_string());
                }
            }
            let nt = present >= 3 && (!(kind == 1 || kind == 2) || (br[0] && br[1]));
            Verdict::pass(nt, l)
        }
    }
}

/// history independence: two different histories ending in the same children outputs give the same result
fn history_case() -> impl Fn(Tier) -> BoxedStrategy<Case> + Send + Sync {
    move |_t: Tier| {
        (1usize..=8, 1usize..=8, 0i64..7, 0usize..40, 1i64..400)
            .prop_flat_map(|(n1, n2, kind, clipk, c)| {
                let n = n1.max(n2);
                let cfg = StreamCfg::new(n).scale(Rat(1, 8)).positive().kmax(512);
                (gen::stream(cfg.len(n, n + 6)), gen::stream(cfg.len(0, 3 * n)), gen::stream(cfg.len(0, 3 * n))).prop_map(move |(s, p1, p2)| Case { spec: Some(Spec::Sma(echo(), n1)), spec2: Some(Spec::Max(echo(), n2)), xs: p1, ys: p2, zs: s, ints: vec![kind, clipk as i64, c], a: Rat(1, 1), ..Default::default() })
            })
            .boxed()
    }
}
fn history_check(case: &Case) -> Verdict {
    let (a, b) = (case.spec(), case.spec2.as_ref().unwrap());
    let kind = case.ints[0];
    let clip = case.zs[(case.ints[1] as usize) % case.zs.len()].f64();
    let spec = match kind {
        0..=3 => mk_binary(kind, a, b),
        4 => Spec::Tanh(Box::new(a.clone())),
        5 => Spec::Gte(Box::new(b.clone()), clip),
        _ => Spec::Lte(Box::new(b.clone()), clip),
    };
    let k = a.max_window().max(b.max_window());
    let h1: Vec<f64> = f64s(&case.xs).into_iter().chain(f64s(&case.zs)).collect();
    let h2: Vec<f64> = f64s(&case.ys).into_iter().chain(f64s(&case.zs)).collect();
    // children outputs agree bit for bit once k suffix values are in (window sums of dyadic values are exact here)
    let (o1, o2) = (run_f64(&spec, &h1), run_f64(&spec, &h2));
    let (ca1, ca2) = (run_f64(a, &h1), run_f64(a, &h2));
    let (cb1, cb2) = (run_f64(b, &h1), run_f64(b, &h2));
    let (l1, l2) = (case.xs.len(), case.ys.len());
    let mut compared = 0;
    for j in (k.saturating_sub(1))..case.zs.len() {
        let same_children = ca1[l1 + j].map(f64::to_bits) == ca2[l2 + j].map(f64::to_bits) && cb1[l1 + j].map(f64::to_bits) == cb2[l2 + j].map(f64::to_bits);
        if !same_children {
            continue;
        }
        compared += 1;
        if o1[l1 + j].map(f64::to_bits) != o2[l2 + j].map(f64::to_bits) {
            return Verdict::fail(format!("C14/{}/history_independence|f64", spec.name()), format!("{}: children report the same outputs but the result differs between two histories: {:?} vs {:?}; prefixes {} / {}, suffix {}", spec.show(), o1[l1 + j], o2[l2 + j], show_rats(&case.xs), show_rats(&case.ys), show_rats(&case.zs)));
        }
    }
    Verdict::pass(compared >= 1 && case.xs != case.ys, vec![spec.name().to_string()])
}

/// ultra-long runs (past 2^16 and 2^17 updates) of the four combinators over (Sma(3), Max(5)) / (Ema(4), Roc(2)); ints = [op, 0, seed, len, shape]
fn ultra_cases(tier: Tier) -> Vec<Case> {
    let len = tier.pick(135_000usize, 1_100_000usize);
    let mut out = vec![];
    for op in 0..4i64 {
        for (ci, (a, b)) in [(Spec::Sma(echo(), 3), Spec::Max(echo(), 5)), (Spec::Ema(echo(), 4), Spec::Sma(echo(), 2))].into_iter().enumerate() {
            out.push(Case { spec: Some(a), spec2: Some(b), ints: vec![op, 0, 0xC14_0000 + 31 * op + ci as i64, len as i64, (op + ci as i64) % 4], a: Rat(1, 1), ..Default::default() });
        }
    }
    out
}
fn ultra_check(case: &Case) -> Verdict {
    let (a, b) = (case.spec(), case.spec2.as_ref().unwrap());
    let op = case.ints[0];
    let (seed, len, shape) = (case.ints[2] as u64, case.ints[3] as usize, case.ints[4]);
    let id = format!("C14/{}/pointwise|f64", OPS[op as usize]);
    // positive inputs: the divisor child (an average or a maximum of positive values) is never 0
    let xs: Vec<f64> = gen::ultra_stream(seed, len, shape).into_iter().map(|k| k.abs().max(1) as f64 / 8.0).collect();
    match guarded(|| run_binary::<f64>(op, a, b, &xs)) {
        Err(p) => Verdict::fail(format!("{id}|panic"), format!("{}: {p}", mk_binary(op, a, b).show())),
        Ok(Err(m)) if m.starts_with("DISCARD") => Verdict::Discard("divisor child produced 0".into()),
        Ok(Err(m)) => Verdict::fail(format!("{id}|value"), format!("{}: {m} (stream: |ultra_stream(seed {seed}, len {len}, shape {shape})| max 1, grid 1/8)", mk_binary(op, a, b).show())),
        Ok(Ok((both, differ, _))) => Verdict::pass(both >= 70_000 && differ >= 1, vec![format!("shape_{shape}")]),
    }
}

pub fn clauses() -> Vec<Clause> {
    let mut v = vec![];
    let crule = "children drawn from Echo, Constant and every unary view over Echo (windows 1..12, above listed-finding thresholds); grammar stream of 0..4N+10 values (positive where Drawdown/LnReturn/the divisor need it); scalars f64, f32 (bit-exact, zeros of either sign equal) and Q (exact equality).";
    for (i, op) in OPS.iter().enumerate() {
        v.push(Clause::generated("C14", format!("C14/{op}/pointwise"), format!("{crule} Stand-alone twins of both children run beside the combinator; after every update the result must be a {} b of the twins' outputs, and None unless both are present. Non-trivial: >= 3 steps with both present and a != b at some step.", ["+", "-", "*", "/"][i]), 2000, 60_000, binary_case(i), binary_check).with_shard(250));
    }
    v.push(Clause::enumerated("C14", "C14/ultra/enumerated", "Enumerated: Add, Subtract, Multiply, Divide over (Sma(3), Max(5)) and (Ema(4), Sma(2)), 135 000 positive values (thorough 1.1e6; past 2^16 and 2^17 updates) on the 1/8 grid, f64; stand-alone twins of both children beside the combinator, result compared after every update.", ultra_cases, ultra_check).with_shard(2));
    v.push(Clause::generated("C14", "C14/unary/pointwise", format!("{crule} Tanh = tanh(child), GTE = if child >= clip {{child}} else {{clip}}, LTE dually, Echo = latest input, Constant = its constant before and after any update; clip taken from the stream's own values so that child == clip occurs. Non-trivial: >= 3 steps with the child present and, for GTE/LTE, both sides of the clip taken."), 4000, 100_000, unary_case(), unary_check).with_shard(400));
    v.push(Clause::generated("C14", "C14/history_independence", "children Sma(n1) and Max(n2) over Echo, two histories with different prefixes and a common suffix; at every step where the children's outputs agree bit for bit the combinator / Tanh / GTE / LTE result must agree bit for bit. Non-trivial: prefixes differ and at least one such step.", 2000, 40_000, history_case(), history_check).with_shard(400));
    v
}
