//! Running views of the crate at the three scalars and comparing outputs exactly.
use crate::catalog::*;
use crate::core::Rat;
use crate::q::{self, Q, XV};
use num::rational::BigRational;
use num::traits::{Signed, Zero};

pub fn qv(r: &BigRational) -> Q {
    Q::from_ratio(r.clone())
}
pub fn bigs(xs: &[Rat]) -> Vec<BigRational> {
    xs.iter().map(|r| r.big()).collect()
}
pub fn f64s(xs: &[Rat]) -> Vec<f64> {
    xs.iter().map(|r| r.f64()).collect()
}
pub fn f32s(xs: &[Rat]) -> Vec<f32> {
    xs.iter().map(|r| r.f32()).collect()
}
/// exact values of the f64 roundings of xs (what "the same stream in exact arithmetic" means for decimal grids)
pub fn bigs_of_f64(xs: &[f64]) -> Vec<BigRational> {
    xs.iter().map(|f| q::rat_f64(*f)).collect()
}

/// Run a view over a stream in exact arithmetic; output after every update.
pub fn run_q(spec: &Spec, xs: &[BigRational]) -> Vec<Option<XV>> {
    let mut v = build::<Q>(spec);
    xs.iter()
        .map(|x| {
            v.update(qv(x));
            v.last().map(|o| o.extract())
        })
        .collect()
}
pub fn run_f64(spec: &Spec, xs: &[f64]) -> Vec<Option<f64>> {
    let mut v = build::<f64>(spec);
    xs.iter()
        .map(|x| {
            v.update(*x);
            v.last()
        })
        .collect()
}
pub fn run_f32(spec: &Spec, xs: &[f32]) -> Vec<Option<f32>> {
    let mut v = build::<f32>(spec);
    xs.iter()
        .map(|x| {
            v.update(*x);
            v.last()
        })
        .collect()
}

pub fn abs_diff(a: &BigRational, b: &BigRational) -> BigRational {
    (a - b).abs()
}
pub fn max_abs<'a>(it: impl Iterator<Item = &'a BigRational>) -> BigRational {
    let mut m = BigRational::zero();
    for x in it {
        let a = x.abs();
        if a > m {
            m = a;
        }
    }
    m
}
/// tolerance for comparisons between two exact-arithmetic evaluations: 0 if no Q rounding happened in this
/// case so far, else 2^-150 * scale (the 2^-256 grid roundings of contractive recursions stay far below it)
pub fn tol_q(scale: &BigRational) -> BigRational {
    if q::arena_rounded() == 0 {
        BigRational::zero()
    } else {
        q::pow2neg(150) * (scale.abs() + BigRational::from_integer(1.into()))
    }
}
/// tolerance when a square root or a transcendental function was involved (2^-150 relative to scale)
pub fn tol_q_irr(scale: &BigRational) -> BigRational {
    q::pow2neg(150) * (scale.abs() + BigRational::from_integer(1.into()))
}
pub fn rat_of_f64(f: f64) -> BigRational {
    q::rat_f64(f)
}
pub fn show(r: &BigRational) -> String {
    format!("{:e}", q::ratio_to_f64(r))
}
pub fn show_opt(o: &Option<XV>) -> String {
    match o {
        None => "None".into(),
        Some(v) => format!("Some({})", v.show()),
    }
}
/// 2^e as an exact rational
pub fn pow2(e: i32) -> BigRational {
    let p = BigRational::from_integer(num::BigInt::from(1) << e.unsigned_abs() as usize);
    if e >= 0 { p } else { p.recip() }
}
/// the stream in the unit 2^e2: exact values and their f64 images (exact as long as k 2^e2 / d is representable, which
/// holds for the dyadic grids down to the subnormal range: callers keep d k within 2^11)
pub fn bigs_e(xs: &[Rat], e2: i32) -> Vec<BigRational> {
    let p = pow2(e2);
    xs.iter().map(|r| r.big() * &p).collect()
}
pub fn f64s_e(xs: &[Rat], e2: i32) -> Vec<f64> {
    // two-step scaling keeps the factor itself a normal number for e2 down to -1074
    let (h1, h2) = (e2 / 2, e2 - e2 / 2);
    xs.iter().map(|r| r.f64() * 2f64.powi(h1) * 2f64.powi(h2)).collect()
}
/// the grid unit of a stream: 1 / (largest denominator), times 2^e2
pub fn grid_unit(xs: &[Rat], e2: i32) -> BigRational {
    let d = xs.iter().map(|r| r.1.abs()).max().unwrap_or(1).max(1);
    BigRational::new(1.into(), d.into()) * pow2(e2)
}
pub fn show_bigs(xs: &[BigRational]) -> String {
    let v: Vec<String> = xs.iter().take(64).map(|r| format!("{r}")).collect();
    format!("[{}{}]", v.join(","), if xs.len() > 64 { ",…" } else { "" })
}
pub fn show_rats(xs: &[Rat]) -> String {
    let v: Vec<String> = xs.iter().take(64).map(|r| if r.1 == 1 { format!("{}", r.0) } else { format!("{}/{}", r.0, r.1) }).collect();
    format!("[{}{}]", v.join(","), if xs.len() > 64 { ",…" } else { "" })
}
