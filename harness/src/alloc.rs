//! Counting global allocator (C18): live heap bytes attributed to the current thread.
//! The counter is a const-initialised thread-local Cell without destructor, so touching it never allocates.
use std::alloc::{GlobalAlloc, Layout, System};
use std::cell::Cell;

thread_local! {
    static LIVE: Cell<isize> = const { Cell::new(0) };
    static TOTAL: Cell<usize> = const { Cell::new(0) };
}
pub struct CountingAlloc;
unsafe impl GlobalAlloc for CountingAlloc {
    unsafe fn alloc(&self, l: Layout) -> *mut u8 {
        let p = System.alloc(l);
        if !p.is_null() {
            let _ = LIVE.try_with(|c| c.set(c.get() + l.size() as isize));
            let _ = TOTAL.try_with(|c| c.set(c.get() + l.size()));
        }
        p
    }
    unsafe fn dealloc(&self, p: *mut u8, l: Layout) {
        System.dealloc(p, l);
        let _ = LIVE.try_with(|c| c.set(c.get() - l.size() as isize));
    }
    unsafe fn realloc(&self, p: *mut u8, l: Layout, new: usize) -> *mut u8 {
        let q = System.realloc(p, l, new);
        if !q.is_null() {
            let _ = LIVE.try_with(|c| c.set(c.get() + new as isize - l.size() as isize));
            if new > l.size() {
                let _ = TOTAL.try_with(|c| c.set(c.get() + new - l.size()));
            }
        }
        q
    }
}
/// bytes allocated minus bytes freed by this thread so far
pub fn thread_live() -> isize {
    LIVE.with(|c| c.get())
}
/// cumulative bytes allocated by this thread (to check that the allocator is installed)
pub fn thread_total() -> usize {
    TOTAL.with(|c| c.get())
}
