//! Independent batch reference models, written from the property statements, evaluated from the complete raw
//! input history in exact rational arithmetic (BigRational). Nothing here shares code with /repo.
use crate::q::{q_sqrt_ratio, Q};
use num::bigint::BigInt;
use num::rational::BigRational;
use num::traits::{One, Signed, Zero};
use num::Float;

pub type R = BigRational;

/// What the reference says about one step.
#[derive(Clone, Debug)]
pub enum Want {
    /// must report nothing
    None,
    /// must report exactly this value (up to the clause's tolerance)
    Val(R),
    /// the statement leaves this step open (counted as exempt)
    Open,
    /// must report something, value not fixed by the statement
    Something,
    /// if a value is reported it must be this one (readiness not fixed by the statement)
    IfSome(R),
}

pub fn ri(n: i64) -> R {
    R::from_integer(BigInt::from(n))
}
pub fn window(h: &[R], t: usize, n: usize) -> &[R] {
    let lo = (t + 1).saturating_sub(n);
    &h[lo..=t]
}
pub fn sum(w: &[R]) -> R {
    w.iter().fold(R::zero(), |a, b| a + b)
}
pub fn mean(w: &[R]) -> R {
    sum(w) / ri(w.len() as i64)
}
/// sample variance (divisor n-1), 0 for fewer than two samples
pub fn sample_var(w: &[R]) -> R {
    if w.len() < 2 {
        return R::zero();
    }
    let m = mean(w);
    w.iter().fold(R::zero(), |a, x| a + (x - &m) * (x - &m)) / ri(w.len() as i64 - 1)
}
/// population variance (divisor n)
pub fn pop_var(w: &[R]) -> R {
    if w.is_empty() {
        return R::zero();
    }
    let m = mean(w);
    w.iter().fold(R::zero(), |a, x| a + (x - &m) * (x - &m)) / ri(w.len() as i64)
}
pub fn min_of(w: &[R]) -> R {
    w.iter().min().unwrap().clone()
}
pub fn max_of(w: &[R]) -> R {
    w.iter().max().unwrap().clone()
}
pub fn sqrt(r: &R) -> R {
    if r.is_negative() || r.is_zero() {
        R::zero()
    } else {
        q_sqrt_ratio(r)
    }
}

// ---------------------------------------------------------------- C02 window statistics

pub fn sma(h: &[R], n: usize) -> Vec<Want> {
    (0..h.len()).map(|t| if t + 1 < n { Want::None } else { Want::Val(mean(window(h, t, n))) }).collect()
}
pub fn cumulative(h: &[R], n: usize) -> Vec<Want> {
    (0..h.len()).map(|t| Want::Val(sum(window(h, t, n)))).collect()
}
pub fn min(h: &[R], n: usize) -> Vec<Want> {
    (0..h.len()).map(|t| Want::Val(min_of(window(h, t, n)))).collect()
}
pub fn max(h: &[R], n: usize) -> Vec<Want> {
    (0..h.len()).map(|t| Want::Val(max_of(window(h, t, n)))).collect()
}
pub fn hl_normalizer(h: &[R], n: usize) -> Vec<Want> {
    (0..h.len())
        .map(|t| {
            let w = window(h, t, n);
            let (lo, hi) = (min_of(w), max_of(w));
            if lo == hi {
                Want::Val(R::zero())
            } else {
                Want::Val(ri(2) * (&h[t] - &lo) / (&hi - &lo) - R::one())
            }
        })
        .collect()
}
/// Roc: 100 (x_t - base)/base, base = x_{t-N} (first value while fewer than N+1 values exist);
/// previous output held while the base is 0 (nothing reported if there is no previous output).
pub fn roc(h: &[R], n: usize) -> Vec<Want> {
    let mut prev: Option<R> = None;
    (0..h.len())
        .map(|t| {
            let base = if t >= n { &h[t - n] } else { &h[0] };
            if !base.is_zero() {
                prev = Some(ri(100) * (&h[t] - base) / base);
            }
            match &prev {
                Some(v) => Want::Val(v.clone()),
                None => Want::None,
            }
        })
        .collect()
}
/// Shannon entropy (bits) of the fraction of non-negative values among the last N. Evaluated with the exact
/// scalar's log2 (exact on powers of two, 2^-192 otherwise); 0 log 0 = 0.
pub fn binary_entropy(h: &[R], n: usize) -> Vec<Want> {
    (0..h.len())
        .map(|t| {
            let w = window(h, t, n);
            let p = w.iter().filter(|x| !x.is_negative()).count();
            let pt = R::new(BigInt::from(p as i64), BigInt::from(w.len() as i64));
            let pn = R::one() - &pt;
            let term = |x: &R| -> R {
                if x.is_zero() {
                    R::zero()
                } else {
                    let l = Q::from_ratio(x.clone()).log2().get().expect("finite log2");
                    x * l
                }
            };
            Want::Val(-(term(&pt) + term(&pn)))
        })
        .collect()
}
/// windowed mean / sample variance / sample std
pub fn welford_mean(h: &[R], n: usize) -> Vec<R> {
    (0..h.len()).map(|t| mean(window(h, t, n))).collect()
}
pub fn welford_var(h: &[R], n: usize) -> Vec<R> {
    (0..h.len()).map(|t| sample_var(window(h, t, n))).collect()
}
/// WelfordOnline::last: std of the window; must be present from N samples on, nothing before N-1 samples,
/// and whenever present it is the std of the values seen so far.
pub fn welford_std(h: &[R], n: usize) -> Vec<Want> {
    (0..h.len())
        .map(|t| {
            let s = sqrt(&sample_var(window(h, t, n)));
            let count = (t + 1).min(n);
            if count + 1 < n {
                Want::None
            } else if t + 1 >= n {
                Want::Val(s)
            } else {
                Want::IfSome(s)
            }
        })
        .collect()
}
pub fn vst(h: &[R], n: usize) -> Vec<Want> {
    (0..h.len())
        .map(|t| {
            let s = sqrt(&sample_var(window(h, t, n)));
            let v = if s.is_zero() { h[t].clone() } else { &h[t] / &s };
            let count = (t + 1).min(n);
            if count + 1 < n {
                Want::None
            } else if t + 1 >= n {
                Want::Val(v)
            } else {
                Want::IfSome(v)
            }
        })
        .collect()
}
pub fn vsct(h: &[R], n: usize) -> Vec<Want> {
    (0..h.len())
        .map(|t| {
            let w = window(h, t, n);
            let s = sqrt(&sample_var(w));
            let v = if s.is_zero() { R::zero() } else { (&h[t] - mean(w)) / &s };
            let count = (t + 1).min(n);
            if count + 1 < n {
                Want::None
            } else if t + 1 >= n {
                Want::Val(v)
            } else {
                Want::IfSome(v)
            }
        })
        .collect()
}

// ---------------------------------------------------------------- C05 RSI family

/// gains / losses over the N most recent values (d = 0 for the very first value of the stream)
pub fn gains_losses(h: &[R], t: usize, n: usize) -> (R, R) {
    let lo = (t + 1).saturating_sub(n);
    let mut g = R::zero();
    let mut l = R::zero();
    for i in lo..=t {
        let d = if i == 0 { R::zero() } else { &h[i] - &h[i - 1] };
        if d.is_positive() {
            g += d;
        } else {
            l += d.abs();
        }
    }
    (g, l)
}
pub fn rsi(h: &[R], n: usize) -> Vec<Want> {
    (0..h.len())
        .map(|t| {
            if t + 1 < n {
                return Want::None;
            }
            let (g, l) = gains_losses(h, t, n);
            if l.is_zero() {
                Want::Val(ri(100))
            } else {
                Want::Val(ri(100) * &g / (&g + &l))
            }
        })
        .collect()
}
/// MyRSI = (G-L)/(G+L), previous output kept while G+L = 0; the statement fixes no value while the stream has been
/// flat from its very first value (no previous output exists): those steps are Open.
pub fn my_rsi(h: &[R], n: usize) -> Vec<Want> {
    let mut prev: Option<R> = None;
    (0..h.len())
        .map(|t| {
            let (g, l) = gains_losses(h, t, n);
            if !(&g + &l).is_zero() {
                prev = Some((&g - &l) / (&g + &l));
            }
            if t + 1 < n {
                Want::None
            } else {
                match &prev {
                    Some(v) => Want::Val(v.clone()),
                    None => Want::Open,
                }
            }
        })
        .collect()
}

// ---------------------------------------------------------------- C06 trend indicators

/// Pearson correlation between the N windowed values and their time index on a full window (0 when either variance is 0).
/// Returns (numerator, squared denominator) so that callers can compare r or r^2 as they like.
pub fn pearson_parts(w: &[R]) -> (R, R) {
    let n = ri(w.len() as i64);
    let (mut sx, mut sy, mut sxx, mut sxy, mut syy) = (R::zero(), R::zero(), R::zero(), R::zero(), R::zero());
    for (i, v) in w.iter().enumerate() {
        let c = ri(i as i64);
        sx += v;
        sy += &c;
        sxx += v * v;
        sxy += v * &c;
        syy += &c * &c;
    }
    let num = &n * &sxy - &sx * &sy;
    let den2 = (&n * &sxx - &sx * &sx) * (&n * &syy - &sy * &sy);
    (num, den2)
}
pub fn cti(h: &[R], n: usize) -> Vec<Want> {
    (0..h.len())
        .map(|t| {
            if t + 1 < n {
                return Want::Open; // the statement speaks about full windows only
            }
            let (num, den2) = pearson_parts(window(h, t, n));
            if den2.is_zero() || den2.is_negative() {
                Want::Val(R::zero())
            } else {
                Want::Val(num / q_sqrt_ratio(&den2))
            }
        })
        .collect()
}
/// Kendall's tau between values and time over all pairs of the window, ties contributing 0
pub fn kendall(w: &[R]) -> R {
    let n = w.len();
    let mut s: i64 = 0;
    for i in 0..n {
        for j in (i + 1)..n {
            s += match w[j].cmp(&w[i]) {
                std::cmp::Ordering::Greater => 1,
                std::cmp::Ordering::Less => -1,
                std::cmp::Ordering::Equal => 0,
            };
        }
    }
    R::new(BigInt::from(2 * s), BigInt::from((n * (n - 1)) as i64))
}
pub fn net(h: &[R], n: usize) -> Vec<Want> {
    (0..h.len())
        .map(|t| {
            let w = window(h, t, n);
            if w.len() < 2 {
                Want::Open
            } else if t + 1 < n {
                Want::IfSome(kendall(w))
            } else {
                Want::Val(kendall(w))
            }
        })
        .collect()
}
/// CoG = (n+1)/2 - sum_k k x_(t-k+1) / sum_k x_(t-k+1), k = 1 newest; 0 when the denominator is 0
pub fn cog_of(w: &[R]) -> R {
    let n = w.len();
    let mut num = R::zero();
    let mut den = R::zero();
    for (i, v) in w.iter().enumerate() {
        let k = ri((n - i) as i64); // newest (last) has k = 1
        num += &k * v;
        den += v;
    }
    if den.is_zero() {
        R::zero()
    } else {
        ri(n as i64 + 1) / ri(2) - num / den
    }
}
pub fn cog(h: &[R], n: usize) -> Vec<Want> {
    (0..h.len()).map(|t| if t + 1 < n { Want::IfSome(cog_of(window(h, t, n))) } else { Want::Val(cog_of(window(h, t, n))) }).collect()
}

// ---------------------------------------------------------------- C04 moving averages

/// e_0 = x_0, e_t = w x_t + (1-w) e_(t-1), w = alpha/(N+1); nothing reported before N values
pub fn ema(h: &[R], n: usize, alpha: &R) -> Vec<Want> {
    let w = alpha / ri(n as i64 + 1);
    let mut e = R::zero();
    (0..h.len())
        .map(|t| {
            e = if t == 0 { h[0].clone() } else { &w * &h[t] + (R::one() - &w) * &e };
            if t + 1 < n {
                Want::None
            } else {
                Want::Val(e.clone())
            }
        })
        .collect()
}
/// gaussian weight of window position k (0 = oldest): exp(-(k-m)^2 / (2 s^2)), m = offset (N+1), s = N / sigma.
/// Evaluated with the exact scalar's exp (2^-192).
pub fn alma_weight(k: usize, n: usize, sigma: &R, offset: &R) -> R {
    let m = offset * ri(n as i64 + 1);
    let s = ri(n as i64) / sigma;
    let d = ri(k as i64) - m;
    let arg = -(&d * &d) / (ri(2) * &s * &s);
    Q::from_ratio(arg).exp().get().expect("finite exp")
}
pub fn alma(h: &[R], n: usize, sigma: &R, offset: &R) -> Vec<Want> {
    let weights: Vec<R> = (0..n).map(|k| alma_weight(k, n, sigma, offset)).collect();
    (0..h.len())
        .map(|t| {
            let w = window(h, t, n);
            let mut num = R::zero();
            let mut den = R::zero();
            for (k, x) in w.iter().enumerate() {
                num += &weights[k] * x;
                den += &weights[k];
            }
            Want::Val(num / den)
        })
        .collect()
}
