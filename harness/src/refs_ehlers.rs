//! Independent batch re-evaluations of the Ehlers-style indicators' difference equations (C11), generic over the scalar,
//! written from the property statement and the cited papers' equations under the crate's stated conventions:
//! window of N filter values including the current one; zero initial filter state (first-value state for LaguerreFilter);
//! "previous input" = 0 for SuperSmoother / RoofingFilter and = the first value for TrendFlex / ReFlex.
//! Every function evaluates the whole history from scratch for each output it returns: nothing is shared with /repo.
use num::Float;
use std::collections::BTreeSet;

fn c<T: Float>(x: f64) -> T {
    T::from(x).expect("can convert")
}
fn u<T: Float>(x: usize) -> T {
    T::from(x).expect("can convert")
}

pub struct RefOut<T> {
    pub out: Vec<Option<T>>,
    /// steps at which the statement / conventions leave the value open
    pub open: Vec<bool>,
    /// branch signature of the run (which branches of the piecewise definition were taken)
    pub branches: BTreeSet<String>,
    /// for the normalised indicators: the magnitude of the normalising denominator at each step (conditioning of the ratio)
    pub denom: Vec<Option<T>>,
}
impl<T> RefOut<T> {
    fn new(n: usize) -> Self {
        RefOut { out: Vec::with_capacity(n), open: vec![false; n], branches: BTreeSet::new(), denom: vec![] }
    }
}

/// The constant 1.414*pi appears in the sources both as `1.414 * PI` and as the rounded literal `4.4422`.
#[derive(Clone, Copy, PartialEq, Debug)]
pub enum Angle {
    /// 1.414 * pi
    Product,
    /// 4.4422
    Literal,
}
fn angle<T: Float>(a: Angle) -> T {
    match a {
        Angle::Product => c::<T>(1.414) * c::<T>(std::f64::consts::PI),
        Angle::Literal => c::<T>(4.4422),
    }
}

/// two-pole smoother coefficients (c1, c2, c3) from a1 and the cosine argument
fn coeffs<T: Float>(a1: T, cos_arg: T) -> (T, T, T) {
    let b1 = c::<T>(2.0) * a1 * cos_arg.cos();
    let c3 = -(a1 * a1);
    (T::one() - b1 - c3, b1, c3)
}

/// filt_t = c1 (x_t + x_(t-1))/2 + c2 filt_(t-1) + c3 filt_(t-2), zero initial state, x_(-1) = prev0
fn two_pole<T: Float>(x: &[T], (c1, c2, c3): (T, T, T), prev0: T) -> Vec<T> {
    let mut f: Vec<T> = Vec::with_capacity(x.len());
    for t in 0..x.len() {
        let xp = if t == 0 { prev0 } else { x[t - 1] };
        let f1 = if t >= 1 { f[t - 1] } else { T::zero() };
        let f2 = if t >= 2 { f[t - 2] } else { T::zero() };
        f.push(c1 * (x[t] + xp) / c::<T>(2.0) + c2 * f1 + c3 * f2);
    }
    f
}

/// SuperSmoother: a1 = exp(-1.414 pi / N), b1 = 2 a1 cos(1.414 pi / N), c3 = -a1^2, c1 = 1 - b1 - c3; nothing before N values.
/// `exp_angle` / `cos_angle` select which spelling of the constant is used in each place.
pub fn super_smoother<T: Float>(x: &[T], n: usize, exp_angle: Angle, cos_angle: Angle) -> RefOut<T> {
    let a1 = (-angle::<T>(exp_angle) / u::<T>(n)).exp();
    let f = two_pole(x, coeffs(a1, angle::<T>(cos_angle) / u::<T>(n)), T::zero());
    let mut r = RefOut::new(x.len());
    for t in 0..x.len() {
        r.out.push(if t + 1 < n { None } else { Some(f[t]) });
    }
    r
}

/// RoofingFilter(N, M): two-pole high-pass with alpha = (cos th + sin th - 1)/cos th, th = 1.414 pi / N (zero state, zero previous
/// inputs), feeding a SuperSmoother(M) from the (N+2)-th value on.
pub fn roofing<T: Float>(x: &[T], n: usize, m: usize, hp_angle: Angle, exp_angle: Angle, cos_angle: Angle) -> RefOut<T> {
    let th = angle::<T>(hp_angle) / u::<T>(n);
    let alpha = (th.cos() + th.sin() - T::one()) / th.cos();
    let two = c::<T>(2.0);
    let k0 = (T::one() - alpha / two).powi(2);
    let k1 = two * (T::one() - alpha);
    let k2 = (T::one() - alpha).powi(2);
    let mut hp: Vec<T> = Vec::with_capacity(x.len());
    for t in 0..x.len() {
        let x1 = if t >= 1 { x[t - 1] } else { T::zero() };
        let x2 = if t >= 2 { x[t - 2] } else { T::zero() };
        let h1 = if t >= 1 { hp[t - 1] } else { T::zero() };
        let h2 = if t >= 2 { hp[t - 2] } else { T::zero() };
        hp.push(k0 * (x[t] - two * x1 + x2) + k1 * h1 - k2 * h2);
    }
    let mut r = RefOut::new(x.len());
    // the smoother is causal: evaluating it once over everything it is ever fed gives the value after each prefix
    let s = if x.len() > n + 1 { super_smoother(&hp[n + 1..], m, exp_angle, cos_angle).out } else { vec![] };
    for t in 0..x.len() {
        r.out.push(if t < n + 1 { None } else { s[t - n - 1] });
    }
    r
}

/// Laguerre ladder, one step: returns the new (L0, L1, L2, L3)
fn ladder<T: Float>(g: T, x: T, p: (T, T, T, T)) -> (T, T, T, T) {
    let l0 = (T::one() - g) * x + g * p.0;
    let l1 = -g * l0 + p.0 + g * p.1;
    let l2 = -g * l1 + p.1 + g * p.2;
    let l3 = -g * l2 + p.2 + g * p.3;
    (l0, l1, l2, l3)
}

/// LaguerreFilter(gamma): all four stages start at the first value; output (L0 + 2 L1 + 2 L2 + L3)/6 from the first value on.
pub fn laguerre_filter<T: Float>(x: &[T], gamma: T) -> RefOut<T> {
    let mut r = RefOut::new(x.len());
    let mut st = (T::zero(), T::zero(), T::zero(), T::zero());
    for t in 0..x.len() {
        st = if t == 0 { (x[0], x[0], x[0], x[0]) } else { ladder(gamma, x[t], st) };
        r.out.push(Some((st.0 + c::<T>(2.0) * st.1 + c::<T>(2.0) * st.2 + st.3) / c::<T>(6.0)));
    }
    r
}

/// LaguerreRSI(N): gamma = 2/(N+1), zero initial state, CU/(CU+CD); the previous output is kept while CU+CD = 0.
pub fn laguerre_rsi<T: Float>(x: &[T], n: usize) -> RefOut<T> {
    let g = c::<T>(2.0) / (u::<T>(n) + T::one());
    let mut r = RefOut::new(x.len());
    let mut st = (T::zero(), T::zero(), T::zero(), T::zero());
    let mut prev: Option<T> = None;
    for t in 0..x.len() {
        st = ladder(g, x[t], st);
        let (mut cu, mut cd) = (T::zero(), T::zero());
        let mut sig = String::new();
        for (a, b) in [(st.0, st.1), (st.1, st.2), (st.2, st.3)] {
            if a >= b {
                cu = cu + (a - b);
                sig.push('u');
            } else {
                cd = cd + (b - a);
                sig.push('d');
            }
        }
        r.denom.push(Some(cu + cd));
        if cu + cd != T::zero() {
            prev = Some(cu / (cu + cd));
            r.branches.insert(format!("ladder_{sig}"));
        } else {
            r.branches.insert("cu+cd=0(held)".into());
        }
        r.out.push(prev);
    }
    r
}

/// CyberCycle(N >= 6): alpha = 2/(N+1); Smooth = (P + 2 P[1] + 2 P[2] + P[3])/6;
/// Cycle = (1 - alpha/2)^2 (Smooth - 2 Smooth[1] + Smooth[2]) + 2 (1 - alpha) Cycle[1] - (1 - alpha)^2 Cycle[2];
/// 0 while fewer than N values have been seen (zero initial state).
pub fn cyber_cycle<T: Float>(x: &[T], n: usize) -> RefOut<T> {
    let alpha = c::<T>(2.0) / (u::<T>(n) + T::one());
    let two = c::<T>(2.0);
    let smooth = |t: usize| -> T { (x[t] + two * x[t - 1] + two * x[t - 2] + x[t - 3]) / c::<T>(6.0) };
    let mut r = RefOut::new(x.len());
    let mut cyc: Vec<T> = Vec::with_capacity(x.len());
    for t in 0..x.len() {
        if t + 1 < n {
            cyc.push(T::zero());
        } else {
            let v = (T::one() - alpha / two).powi(2) * (smooth(t) - two * smooth(t - 1) + smooth(t - 2)) + two * (T::one() - alpha) * cyc[t - 1] - (T::one() - alpha).powi(2) * cyc[t - 2];
            cyc.push(v);
        }
        r.out.push(Some(cyc[t]));
    }
    r
}

fn flex_filter<T: Float>(x: &[T], n: usize) -> Vec<T> {
    let a1 = (c::<T>(-8.88442402435) / u::<T>(n)).exp();
    let co = coeffs(a1, c::<T>(4.44221201218) / u::<T>(n));
    two_pole(x, co, if x.is_empty() { T::zero() } else { x[0] })
}

/// TrendFlex(N >= 3): smoother with a1 = exp(-8.88442402435/N), b1 = 2 a1 cos(4.44221201218/N); mean deviation of the current filter
/// value from the window's filter values (N values incl. the current, fewer while filling), divided by N; ms = 0.04 d^2 + 0.96 ms[1];
/// d / sqrt(ms), 0 when ms is not positive.
pub fn trend_flex<T: Float>(x: &[T], n: usize) -> RefOut<T> {
    let f = flex_filter(x, n);
    let mut r = RefOut::new(x.len());
    let mut ms = T::zero();
    for t in 0..x.len() {
        let lo = (t + 1).saturating_sub(n);
        let mut d = T::zero();
        for j in lo..=t {
            d = d + (f[t] - f[j]);
        }
        d = d / u::<T>(n);
        ms = c::<T>(0.04) * d * d + c::<T>(0.96) * ms;
        r.denom.push(Some(if ms > T::zero() { ms.sqrt() } else { T::zero() }));
        if ms > T::zero() {
            r.out.push(Some(d / ms.sqrt()));
            r.branches.insert("ms>0".into());
        } else {
            r.out.push(Some(T::zero()));
            r.branches.insert("ms=0".into());
        }
    }
    r
}

/// ReFlex(N >= 3): same smoother; slope = (oldest filter value in the window - current)/N; deviation sum over the window of
/// (current + i slope - filter value i steps back), divided by N; normalised like TrendFlex (previous output kept while ms = 0).
pub fn re_flex<T: Float>(x: &[T], n: usize) -> RefOut<T> {
    let f = flex_filter(x, n);
    let mut r = RefOut::new(x.len());
    let mut ms = T::zero();
    let mut prev: Option<T> = None;
    for t in 0..x.len() {
        let lo = (t + 1).saturating_sub(n);
        let slope = (f[lo] - f[t]) / u::<T>(n);
        let mut d = T::zero();
        for i in 0..=(t - lo) {
            d = d + ((f[t] + u::<T>(i) * slope) - f[t - i]);
        }
        d = d / u::<T>(n);
        ms = c::<T>(0.04) * d * d + c::<T>(0.96) * ms;
        r.denom.push(Some(if ms > T::zero() { ms.sqrt() } else { T::zero() }));
        if ms > T::zero() {
            prev = Some(d / ms.sqrt());
            r.branches.insert("ms>0".into());
        } else {
            r.branches.insert("ms=0(held)".into());
            if prev.is_none() {
                r.open[t] = true; // no previous output to keep: the conventions fix no value
            }
        }
        r.out.push(prev);
    }
    r
}

/// Moving averages admissible inside EFT / PFE, re-evaluated from all the values they were fed.
#[derive(Clone, Copy, Debug)]
pub enum Ma {
    Sma(usize),
    Ema(usize),
    Alma(usize),
}
/// streaming evaluation of the moving average over the values pushed so far (same definitions as C04's references)
pub struct MaRef<T> {
    ma: Ma,
    fed: Vec<T>,
    ema: Option<T>,
    weights: Vec<T>,
}
impl<T: Float> MaRef<T> {
    pub fn new(ma: Ma) -> Self {
        let weights = match ma {
            Ma::Alma(m) => {
                let mm = c::<T>(0.85) * (u::<T>(m) + T::one());
                let s = u::<T>(m) / c::<T>(6.0);
                (0..m).map(|i| (-(u::<T>(i) - mm).powi(2) / (c::<T>(2.0) * s * s)).exp()).collect()
            }
            _ => vec![],
        };
        MaRef { ma, fed: vec![], ema: None, weights }
    }
    pub fn push(&mut self, v: T) -> Option<T> {
        self.fed.push(v);
        let k = self.fed.len();
        match self.ma {
            Ma::Sma(m) => {
                if k < m {
                    return None;
                }
                Some(self.fed[k - m..].iter().fold(T::zero(), |a, b| a + *b) / u::<T>(m))
            }
            Ma::Ema(m) => {
                let w = c::<T>(2.0) / (u::<T>(m) + T::one());
                let e = match self.ema {
                    None => v,
                    Some(e) => v * w + e * (T::one() - w),
                };
                self.ema = Some(e);
                if k < m {
                    None
                } else {
                    Some(e)
                }
            }
            Ma::Alma(m) => {
                let w = &self.fed[k.saturating_sub(m)..];
                let (mut num, mut den) = (T::zero(), T::zero());
                for (i, v) in w.iter().enumerate() {
                    num = num + self.weights[i] * *v;
                    den = den + self.weights[i];
                }
                Some(num / den)
            }
        }
    }
}

/// EhlersFisherTransform(N, ma): v = 2 ((x - low)/(high - low) - 1/2) over the window of N values incl. the current one;
/// a flat window reports 0 and leaves the moving average untouched; otherwise v is smoothed by `ma`, clamped to +-0.99 and
/// fish = 0.5 ln((1+s)/(1-s)) + 0.5 previous output; the very first output is 0; nothing changes while `ma` has no value.
pub fn fisher<T: Float>(x: &[T], n: usize, ma: Ma) -> RefOut<T> {
    let mut r = RefOut::new(x.len());
    let mut mar = MaRef::<T>::new(ma);
    let mut last: Option<T> = None;
    for t in 0..x.len() {
        let lo = (t + 1).saturating_sub(n);
        let w = &x[lo..=t];
        let (mut hi, mut lw) = (w[0], w[0]);
        for v in w {
            if *v > hi {
                hi = *v;
            }
            if *v < lw {
                lw = *v;
            }
        }
        if hi == lw {
            last = Some(T::zero());
            r.branches.insert("flat_window".into());
        } else {
            let v = c::<T>(2.0) * ((x[t] - lw) / (hi - lw) - c::<T>(0.5));
            if let Some(s) = mar.push(v) {
                let (s, clamped) = if s > c::<T>(0.99) {
                    (c::<T>(0.99), true)
                } else if s < c::<T>(-0.99) {
                    (c::<T>(-0.99), true)
                } else {
                    (s, false)
                };
                r.branches.insert(if clamped { "clamp_active".into() } else { "clamp_inactive".to_string() });
                last = Some(match last {
                    None => T::zero(),
                    Some(p) => c::<T>(0.5) * ((T::one() + s) / (T::one() - s)).ln() + c::<T>(0.5) * p,
                });
            } else {
                r.branches.insert("ma_warming_up".into());
            }
        }
        r.out.push(last);
    }
    r
}

/// PolarizedFractalEfficiency(N >= 3, ma): once N values are present, p = sqrt((x_t - x_(t-N+1))^2 + N^2) divided by the summed
/// sqrt(d^2 + 1) over the window's N-2 most recent steps, negative when the last step is down; output = ma of the p values.
pub fn pfe<T: Float>(x: &[T], n: usize, ma: Ma) -> RefOut<T> {
    let mut r = RefOut::new(x.len());
    let mut mar = MaRef::<T>::new(ma);
    let mut last: Option<T> = None;
    for t in 0..x.len() {
        if t + 1 >= n {
            let mut s = T::zero();
            for i in 0..n - 2 {
                let d = x[t - i] - x[t - i - 1];
                s = s + (d * d + T::one()).sqrt();
            }
            let dx = x[t] - x[t + 1 - n];
            let mut p = (dx * dx + u::<T>(n) * u::<T>(n)).sqrt() / s;
            if x[t] < x[t - 1] {
                p = -p;
                r.branches.insert("last_step_down".into());
            } else {
                r.branches.insert("last_step_not_down".into());
            }
            last = mar.push(p);
        }
        r.out.push(last);
    }
    r
}
