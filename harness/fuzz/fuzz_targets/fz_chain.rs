//! C01 / C14 / C17 under coverage guidance: decomposition, Probe delivery, presence, twins, purity of last(), clones.
#![no_main]
use libfuzzer_sys::fuzz_target;
use sfverif::core::Verdict;

fn init() {
    // libfuzzer-sys installs an aborting panic hook; the oracles need catch_unwind (a panic of the crate is a verdict,
    // listed findings are tolerated), so the harness' capturing hook replaces it once
    static ONCE: std::sync::Once = std::sync::Once::new();
    ONCE.call_once(sfverif::runner::install_panic_hook);
}
/// FZ_PROP selects the property whose oracle is active in this campaign (default: all of the target's properties)
fn active(prop: &str) -> bool {
    static P: std::sync::OnceLock<Option<String>> = std::sync::OnceLock::new();
    P.get_or_init(|| std::env::var("FZ_PROP").ok()).as_deref().map_or(true, |p| p == prop)
}
fn report(prop: &str, sig: &str, msg: &str, case: &sfverif::core::Case) -> ! {
    eprintln!("FUZZ-VIOLATION property={prop} sig={sig}\n  {msg}\n  case={}", serde_json_case(case));
    std::process::abort()
}
fn serde_json_case(case: &sfverif::core::Case) -> String {
    sfverif::runner::case_json(case)
}

fuzz_target!(|data: &[u8]| {
    init();
    let Some(case) = sfverif::fuzzdec::decode(data) else { return };
    sfverif::q::arena_reset();
    if active("C01") {
    if let Verdict::Fail { sig, msg } = sfverif::props::c01::fuzz_check(&case) {
        if !sfverif::fuzzdec_known(&sig) {
            report("C01", &sig, &msg, &case);
        }
    }
    }
    if active("C17") {
    if let Verdict::Fail { sig, msg } = sfverif::props::c17::fuzz_check(&case) {
        if !sfverif::fuzzdec_known(&sig) {
            report("C17", &sig, &msg, &case);
        }
    }
    }
});
