//! C15 / C08 under coverage guidance: any decoded tree (depth <= 3) over any decoded stream must neither panic (this build has
//! debug assertions and overflow checks ON; the -O build has them OFF) nor let readiness relapse nor report a non-finite value.
#![no_main]
use libfuzzer_sys::fuzz_target;
use sfverif::core::Verdict;

fn init() {
    // libfuzzer-sys installs an aborting panic hook; the oracles need catch_unwind (a panic of the crate is a verdict,
    // listed findings are tolerated), so the harness' capturing hook replaces it once
    static ONCE: std::sync::Once = std::sync::Once::new();
    ONCE.call_once(sfverif::runner::install_panic_hook);
}
/// FZ_PROP selects the property whose oracle is active in this campaign (default: all of the target's properties)
fn active(prop: &str) -> bool {
    static P: std::sync::OnceLock<Option<String>> = std::sync::OnceLock::new();
    P.get_or_init(|| std::env::var("FZ_PROP").ok()).as_deref().map_or(true, |p| p == prop)
}
fn report(prop: &str, sig: &str, msg: &str, case: &sfverif::core::Case) -> ! {
    eprintln!("FUZZ-VIOLATION property={prop} sig={sig}\n  {msg}\n  case={}", serde_json_case(case));
    std::process::abort()
}
fn serde_json_case(case: &sfverif::core::Case) -> String {
    sfverif::runner::case_json(case)
}

fuzz_target!(|data: &[u8]| {
    init();
    let Some(case) = sfverif::fuzzdec::decode(data) else { return };
    sfverif::q::arena_reset();
    // C15 oracle: the clause's own check (catch_unwind inside; a panic of the view is a Fail verdict)
    if active("C15") {
    if let Verdict::Fail { sig, msg } = sfverif::props::c15::fuzz_check(&case) {
        if !sfverif::fuzzdec_known(&sig) {
            report("C15", &sig, &msg, &case);
        }
    }
    }
    if active("C08") {
    if let Verdict::Fail { sig, msg } = sfverif::props::c08::fuzz_check(&case) {
        if !sfverif::fuzzdec_known(&sig) {
            report("C08", &sig, &msg, &case);
        }
    }
    }
});
