//! Single views against their definitional / metamorphic oracles under coverage guidance (C02-C07, C10-C14).
//! FZ_PROP selects the property (default C02). The bytes decode into (clause id, case) in exactly the shape that clause's own
//! proptest generator produces (`fuzzdec::decode_single`), and the oracle is that clause's check function.
#![no_main]
use libfuzzer_sys::fuzz_target;
use sfverif::core::{Clause, Verdict};
use std::collections::HashMap;
use std::sync::OnceLock;

fn init() {
    static ONCE: std::sync::Once = std::sync::Once::new();
    ONCE.call_once(sfverif::runner::install_panic_hook);
}
fn prop() -> &'static str {
    static P: OnceLock<String> = OnceLock::new();
    P.get_or_init(|| std::env::var("FZ_PROP").unwrap_or_else(|_| "C02".into())).as_str()
}
fn clauses() -> &'static HashMap<String, Clause> {
    static C: OnceLock<HashMap<String, Clause>> = OnceLock::new();
    C.get_or_init(|| sfverif::props::clauses(prop()).into_iter().map(|c| (c.id.clone(), c)).collect())
}

fuzz_target!(|data: &[u8]| {
    init();
    let Some((id, case)) = sfverif::fuzzdec::decode_single(prop(), data) else { return };
    let Some(cl) = clauses().get(&id) else {
        eprintln!("FUZZ-HARNESS-ERROR: the decoder names clause {id}, which {} does not have", prop());
        std::process::abort()
    };
    sfverif::q::arena_reset();
    match std::panic::catch_unwind(std::panic::AssertUnwindSafe(|| (cl.check)(&case))) {
        Ok(Verdict::Fail { sig, msg }) => {
            if !sfverif::fuzzdec_known(&sig) {
                eprintln!("FUZZ-VIOLATION property={} clause={id} sig={sig}\n  {msg}\n  case={}", prop(), sfverif::runner::case_json(&case));
                std::process::abort()
            }
        }
        Ok(_) => {}
        Err(_) => {
            // a panic that escaped the clause's own guards is a limitation of the harness (e.g. an operation the exact scalar
            // does not implement), never a verdict about /repo
            eprintln!("FUZZ-HARNESS-ERROR: clause {id} panicked outside its guards; case={}", sfverif::runner::case_json(&case));
            std::process::abort()
        }
    }
});
