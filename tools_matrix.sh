#!/bin/bash
export VERIF_EVIDENCE_DIR=/root/.cache/sfverif-trial-evidence; mkdir -p $VERIF_EVIDENCE_DIR  # evidence of trials on changed trees never lands in /verif/evidence
# tools_matrix.sh [extra Cxx ...]  : for every seeded change, apply it to /repo, run its own property's quick check (plus extras),
# undo it, and record the outcome in seeded/<id>/meta.json (detected_by) and in /verif/seeded/MATRIX.txt
# MATRIX_ONLY="C02f C13f ..." restricts the run to those ids (their old lines in MATRIX.txt are replaced)
# MATRIX_OUT=<file> writes there instead of seeded/MATRIX.txt and leaves meta.json alone (robustness runs at other seeds: VERIF_SEED=n)
cd /verif
M="${MATRIX_OUT:-seeded/MATRIX.txt}"
if [ -n "$MATRIX_OUT" ]; then : > "$M"; elif [ -z "$MATRIX_ONLY" ]; then : > seeded/MATRIX.txt; else for o in $MATRIX_ONLY; do sed -i "/^$o-/d" seeded/MATRIX.txt; done; fi
git -C /repo diff --quiet || { echo "/repo is dirty"; exit 2; }
for d in seeded/*/; do
  id=$(basename $d); prop=${id:0:3}
  if [ -n "$MATRIX_ONLY" ]; then case " $MATRIX_ONLY " in *" ${id%%-*} "*) ;; *) continue;; esac; fi
  git -C /repo apply /verif/$d/patch.diff || { echo "$id PATCH-FAILS" | tee -a "$M"; continue; }
  det=""
  for c in $prop "$@"; do
    out=$(./check.sh $c quick 2>&1); st=$?
    sig=$(echo "$out" | grep -m1 "clause=" | sed 's/.*sig=//' | cut -c1-80)
    if [ $st -eq 1 ]; then det="$det $c"; fi
    echo "$id $c exit=$st $sig" | tee -a "$M"
  done
  git -C /repo checkout -- .
  [ -n "$MATRIX_OUT" ] && continue
  python3 - "$d" "$det" <<'PY'
import json,sys
d,det=sys.argv[1],sys.argv[2].split()
m=json.load(open(d+'/meta.json')); m['detected_by']=sorted(set((m.get('detected_by') or [])+det)); json.dump(m,open(d+'/meta.json','w'),indent=1)
PY
done
(cd /verif/harness && CARGO_NET_OFFLINE=true cargo build -q --release 2>/dev/null; CARGO_NET_OFFLINE=true cargo build -q --profile relassert 2>/dev/null)  # never leave a binary built from a changed tree behind
sort -o "$M" "$M"
git -C /repo status --short | head -3
