#!/bin/bash
# tools_ingest_mutant.sh <worktree> <seeded-id>
# Confirms a sub-agent's seeded change (compiles, 43 baseline tests pass, demo fails with / passes without) in its scratch
# worktree and stores it as /verif/seeded/<id>/{patch.diff,demo_test.rs,meta.json}. Then removes the worktree.
set -u
WT="$1"; ID="$2"; OUT=/verif/seeded/$ID
cd "$WT" || exit 2
[ -f mutant.diff ] && [ -f demo/demo_test.rs ] && [ -f meta.json ] || { echo "missing deliverables in $WT"; exit 2; }
git checkout -q -- . 2>/dev/null; rm -f tests/demo_test.rs
git apply --check mutant.diff || { echo "patch does not apply to HEAD"; exit 2; }
git apply mutant.diff
t_with=$(cargo test --workspace --no-fail-fast --offline 2>&1 | grep -E "^test result:" | head -1); git checkout -q -- img
mkdir -p tests; cp demo/demo_test.rs tests/demo_test.rs
d_with=$(cargo test --offline --test demo_test 2>&1 | grep -E "^test result:" | head -1)
git apply -R mutant.diff
d_without=$(cargo test --offline --test demo_test 2>&1 | grep -E "^test result:" | head -1)
rm -f tests/demo_test.rs; rmdir tests 2>/dev/null
echo "suite with change : $t_with"; echo "demo with change  : $d_with"; echo "demo without      : $d_without"
case "$t_with" in *"43 passed; 0 failed"*) ;; *) echo "REJECT: suite does not pass with the change"; exit 1;; esac
case "$d_with" in *FAILED*) ;; *) echo "REJECT: demo does not fail with the change"; exit 1;; esac
case "$d_without" in *"ok."*) ;; *) echo "REJECT: demo does not pass without the change"; exit 1;; esac
mkdir -p "$OUT"; cp mutant.diff "$OUT/patch.diff"; cp demo/demo_test.rs "$OUT/demo_test.rs"
python3 - "$OUT" "$t_with" "$d_with" "$d_without" <<'PY'
import json,sys
out,tw,dw,dwo=sys.argv[1:5]
m=json.load(open('meta.json'))
m['confirmed']={'baseline_suite_with_change':tw,'demo_with_change':dw,'demo_without_change':dwo,
  'how':'in a scratch worktree of /repo HEAD: git apply patch.diff; cargo test --workspace --no-fail-fast --offline; cp demo_test.rs tests/; cargo test --offline --test demo_test (fails); git apply -R; same demo (passes)'}
m['detected_by']=None
json.dump(m,open(out+'/meta.json','w'),indent=1)
PY
echo "stored $OUT"
cd / && git -C /repo worktree remove --force "$WT" && echo "worktree removed"
