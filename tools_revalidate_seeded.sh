#!/bin/bash
# re-confirm every /verif/seeded/<id> against /repo HEAD in a scratch worktree (removed afterwards)
WT=/tmp/wt/reval; rm -rf $WT; git -C /repo worktree prune; git -C /repo worktree add -q $WT HEAD || exit 2
cd $WT
for d in /verif/seeded/*/; do
  id=$(basename $d); git checkout -q -- . ; rm -rf tests
  if ! git apply $d/patch.diff 2>/dev/null; then echo "$id: PATCH-DOES-NOT-APPLY"; continue; fi
  tw=$(cargo test --workspace --no-fail-fast --offline 2>&1 | grep -E "^test result:|^error" | head -1); git checkout -q -- img
  mkdir -p tests; cp $d/demo_test.rs tests/demo_test.rs
  dw=$(cargo test --offline --test demo_test 2>&1 | grep -E "^test result:|^error" | head -1)
  git apply -R $d/patch.diff
  dwo=$(cargo test --offline --test demo_test 2>&1 | grep -E "^test result:|^error" | head -1)
  rm -rf tests
  ok=OK
  case "$tw" in *"43 passed; 0 failed"*) ;; *) ok="STALE(suite: $tw)";; esac
  case "$dw" in *FAILED*) ;; *) ok="STALE(demo passes with change: $dw)";; esac
  case "$dwo" in *"ok."*) ;; *) ok="STALE(demo fails without change: $dwo)";; esac
  echo "$id: $ok"
done
cd /; git -C /repo worktree remove --force $WT
