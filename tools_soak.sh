#!/bin/bash
# tools_soak.sh <tier> <seed...> : run every claimed check at the given tier for each seed; print only what is not exit 0.
# When started by `vp run --with-repo`, the snapshot's harness is pointed at the snapshot of /repo ($VP_RUN_REPO).
tier="$1"; shift
cd "$(dirname "$0")"
if [ -n "$VP_RUN_REPO" ]; then sed -i "s#path = \"/repo\"#path = \"$VP_RUN_REPO\"#" harness/Cargo.toml; fi
./check.sh setup || exit 2
for seed in "$@"; do
  for c in $(python3 -c "import json;print(' '.join(x['property_id'] for x in json.load(open('MANIFEST.json'))['checks']))"); do
    s=$(date +%s); out=$(VERIF_SEED=$seed ./check.sh $c $tier 2>&1); st=$?; e=$(date +%s)
    echo "seed=$seed $c exit=$st $((e-s))s"
    if [ $st -ne 0 ]; then echo "$out" | grep -a -E "VIOLATION|clause=|HARNESS|INCONCLUSIVE|also" | head -12; fi
  done
done
echo SOAK-DONE
