#!/usr/bin/env python3
"""Regenerates DESIGN.md section 10 (between the SEC10 markers) from seeded/*/meta.json and seeded/MATRIX.txt."""
import json, glob, os
mat = {}
for l in open('/verif/seeded/MATRIX.txt'):
    p = l.split()
    if len(p) >= 3:
        mat.setdefault(p[0], []).append((p[1], p[2], ' '.join(p[3:])))
out = ["<!-- SEC10-BEGIN -->\n## 10. Seeded changes (from fresh sub-agents) and which checks catch them\n\n"]
out.append('''Nine rounds of fresh sub-agents (round 9: C06g, C16h, run at the default seed only; rounds 4 to 8 with requests for changes that need long windows, long streams,
rare secondary parameters, tiny or huge units, a narrowed counter, f32 only, chains only, clones of clones, never-delivered inner views) were each given only the JSON record of one property and a scratch
git worktree of /repo (nothing from /verif), and asked for a change that breaks the property while
compiling and passing the 43 baseline tests, with a demonstration. Every change below was confirmed in a
scratch worktree (`tools_ingest_mutant.sh`: patch applies, suite 43/43 with the change, demonstration
fails with it and passes without it) and is kept as `/verif/seeded/<id>/{patch.diff, demo_test.rs,
meta.json}`; `tools_revalidate_seeded.sh` re-confirms all of them against the current /repo HEAD (needed
after every `fix:` commit), `tools_matrix.sh` applies each to /repo (`git -C /repo apply`), runs the
quick checks named, undoes it (`git -C /repo checkout -- .`) and records the outcome in
`seeded/MATRIX.txt` and `meta.json.detected_by`. The first column of "checks" is the change's own property.
The matrix below is for the default seed; the same run with `VERIF_SEED=1` (`seeded/MATRIX_seed1.txt`, `MATRIX_OUT=` mode of the
tool) gives the same picture for the 129 changes of rounds 1 to 8: 128 of 129 caught by their own property's quick check, the exception again C07b.

| id | change | needs to manifest | checks (quick tier) | first signature reported |
|---|---|---|---|---|
''')
for d in sorted(glob.glob('/verif/seeded/*/')):
    id = os.path.basename(d.rstrip('/'))
    m = json.load(open(d + 'meta.json'))
    r = mat.get(id, [])
    summ = m.get('summary', '').replace('|', '/').replace('\n', ' ')
    needs = m.get('needs', '').replace('|', '/').replace('\n', ' ')
    if len(summ) > 160: summ = summ[:157] + '...'
    if len(needs) > 180: needs = needs[:177] + '...'
    checks = ', '.join(f"{c}: {'caught' if e == 'exit=1' else ('missed' if e == 'exit=0' else e)}" for c, e, _ in r) or 'not run'
    sig = next((s for c, e, s in r if e == 'exit=1'), '')
    out.append(f"| {id} | {summ} | {needs} | {checks} | `{sig[:72]}` |\n")
out.append('''
Seeded changes that stopped breaking their property after a repair of /repo are under `seeded_retired/`
(C08a, C15a: `var == 0` instead of `var <= 0` in WelfordOnline::last - caught by C08 and by C15 in both
profiles before `0dd7172`; C16a: m2 clamped at 0 - never caught: it only changed outputs inside the then
listed Vst/Vsct flat-window finding).

What the misses taught:
* C04a (Ema counts update() calls instead of delivered samples) is invisible over Echo: C04 gained the
  clause `C04/gated/Q` (the averages over a leaf that withholds its first k inputs); C01 and C08 caught it from the start.
* C06a was caught by C06 but not by C08 until the warm-up clause also fed zero and sum-zero streams.
* C12a (a level-relative flatness guard in Vsct) needs offsets ~2^30 times the spread: the C12 generator draws offsets up to 2^33 grid units.
* C18a (Max's queue is only trimmed on a falling value) is invisible on noise: C18 drives seven stream classes, among them ramps, plateaus and staircases.
* Round 5 (16 changes, 12 caught at once). The four misses and what was added:
  C13e and C08e (a counter narrowed to u16 that saturates / wraps after 65 535 updates) - the `ultra` clauses: 135 000-value
  streams in the quick tier for every property with a per-step or per-checkpoint oracle (C01-C13, C15, C17), so that any view's
  behaviour past 2^16 and 2^17 updates is compared with its definition, its twin, its clone, its bounds;
  C12e (Roc treats |x| < epsilon as zero) - the f64 scale clause now draws a = 2^k with k in -200..200 (2 in 5 cases) instead of -30..30;
  C10e (Ema::with_alpha clamps only upward moves when alpha > N+1) - C10 now includes Ema::with_alpha (weights j/8, j = 1..15) and
  Alma::new_custom among the linear views.
* Round 6 (16 changes, 11 caught at once by the checks as they stood after round 5). The five others and what they led to:
  C02f (Roc treats a subnormal base as zero) - `C02/<view>/tiny_unit/f64`: streams in units of 2^-150 and, for the views that neither
  square nor take roots, 2^-1065 (subnormal inputs), zeros partly written as -0.0, and every f64 tolerance of C02 made relative to the
  input unit (the old `max|x| + 1` floor made the 2^-30 / 2^-50 grids vacuous for value-like outputs);
  C13f (LnReturn's "unset" sentinel widened to |x| < epsilon) - the f64 legs of LnReturn and Drawdown run half of their cases at units
  2^-80, 2^-300, 2^-1040 and 2^300;
  C03f (HLNormalizer seeds its extent with the raw input instead of its inner view's first output: invisible over Echo) -
  `C03/<view>/chained/Q`: every C03 view over Sma / Max / Min / Cumulative(M), common suffix of K + M - 1 raw values;
  C07d (MyRSI keeps running sums for N >= 100: residue after a volatile stretch leaves [-1, 1]) - C07's quick tier now draws windows
  up to 128 (it stopped at 96; the thorough tier already reached it);
  C18e (Alma appends a weight on every update while its inner view delivers nothing) - C18 measures every view over a leaf that
  never delivers as well;
  C12g (requested for C16, filed under C12: HLNormalizer rewritten around the mid-band; inside C16's three-decade envelope its extra
  error is 1e-13, so it does not break C16, but it breaks C12's bit-exact offset clause) - `C12/affine/f64` for the views that only form
  differences of inputs (HLNormalizer, NET, EFT), with offsets of up to 2^53 grid units so that any sum or midpoint of inputs must round.
* Round 7 (18 changes aimed at corner situations: ties at the window edge, first values, exact zeros, one parity of N, constant tails,
  polling patterns; 15 caught at once). The three others:
  C05e (MyRSI seeds its reference from the raw input before its inner view has answered: invisible over Echo; C01's decomposition
  caught it) - `chained/Q` clauses for C02, C05 and C06: the view over Sma / Max / Min / GTE / LTE, the batch definition applied to what an
  exact stand-alone run of that inner view delivers;
  C16f (NET with `signum`: a flat window gives -1, in every arithmetic) - C16's flat clause compared f64 with the exact run of the same
  code only; it now also checks the answers the statement names for a flat window (Rsi 100; Vst, Sma, Alma the value; Vsct,
  WelfordOnline, HLNormalizer, CTI, NET, Roc 0; Ema the value and CyberCycle 0 after 12 N values), which surfaced finding #27;
  C09f (EFT holds its previous output on a flat window) - C09's fading-memory clause always merged the two streams into a *noisy*
  tail; a constant-tail variant was added (signature `fading_flat_tail`), which surfaced finding #26.
* Round 8 (16 changes, each in a view / property combination not used before; 14 caught at once). The two others:
  C10g (RoofingFilter flushes its high-pass state to 0 below machine epsilon) - C10's f64 leg multiplies both coefficients by 2^-60,
  2^-200 or 2^100 in one case out of three, and its tolerance lost the absolute floor (`+ max|x,y| + 1`) that made small
  coefficients vacuous: it is now 1e-9 (|a| (max|out_x| + max|x|) + |b| (max|out_y| + max|y|));
  C16g (CenterOfGravity keeps running sums: on a window of zeros after volatile values it divides residue by residue) - one flat
  tail in eight of C16's flat clause is now flat at exactly 0 (inside the envelope, which bounds non-zero magnitudes only).
* C07b (WelfordOnline's flat-window reset keeps the residue of `mean`) is **not caught**: it needs a spike ~1e16 times the later level,
  and what it then breaks - Vsct's sharp bound, numerically (exact arithmetic unaffected) - is inside the listed finding
  `C07/range/Vsct/f*|range|exact_ok`; inside C16's three-decade envelope its effect (1e-10 of the range) is below the 1e-6 tolerance.
<!-- SEC10-END -->
''')
txt = ''.join(out)
s = open('/verif/DESIGN.md').read()
if '<!-- SEC10-BEGIN -->' in s:
    a = s.index('<!-- SEC10-BEGIN -->'); b = s.index('<!-- SEC10-END -->') + len('<!-- SEC10-END -->\n')
    s = s[:a] + txt + s[b:]
else:
    a = s.index('## 11. False alarms')
    s = s[:a] + txt + '\n' + s[a:]
open('/verif/DESIGN.md', 'w').write(s)
print("section 10 regenerated,", txt.count('\n| C'), "rows")
